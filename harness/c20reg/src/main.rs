//! C20 — registry resolution returns the right content for every requested key.
//!
//! One in-process Warg server on 127.0.0.1 (the repository's own test recipe) holds several packages
//! with several releases of very different sizes; generated key sets are resolved through
//! `RegistryPackageResolver::resolve` on tokio runtimes with 1, 2 and 8 workers, with cold and warm
//! client caches, and the result is compared with what the harness published.

use indexmap::IndexMap;
use miette::SourceSpan;
use proptest::prelude::*;
use serde::{Deserialize, Serialize};
use serde_json::json;
use std::collections::BTreeMap;
use std::path::{Path, PathBuf};
use std::sync::atomic::{AtomicU64, Ordering};
use std::time::Duration;
use tokio_util::sync::CancellationToken;
use vcheck::engine::*;
use wac_resolver::{Error, RegistryPackageResolver};
use wac_types::BorrowedPackageKey;
use warg_client::{
    storage::{ContentStorage, PublishEntry, PublishInfo},
    FileSystemClient,
};
use warg_crypto::signing::PrivateKey;
use warg_protocol::{operator::NamespaceState, registry::PackageName};
use warg_server::{policy::content::WasmContentPolicy, Config, Server};

const ROOT: &str = "/verif/harness/target/tmp/c20";

fn operator_key() -> &'static str {
    "ecdsa-p256:I+UlDo0HxyBBFeelhPPWmD+LnklOpqZDkrFP5VduASk="
}
fn signing_key() -> &'static str {
    "ecdsa-p256:2CV1EpLaSYEn4In4OAEDAj5O4Hzu8AFAxgHXuG310Ew="
}

/// What the registry holds: (package, releases in publication order with content size in padding bytes).
const PUBLISHED: &[(&str, &[(&str, usize)])] = &[
    ("test:a", &[("1.0.0", 200_000), ("1.1.0", 10), ("2.0.0", 40_000)]),
    ("test:b", &[("0.1.0", 1_000)]),
    ("test:c", &[("0.3.1", 300_000), ("0.3.0", 5)]),
    ("test:d", &[("1.0.0", 50), ("0.9.0", 120_000), ("1.0.1", 20)]),
    // initialised, never released
    ("test:e", &[]),
];

fn content(name: &str, version: &str, pad: usize) -> Vec<u8> {
    // a valid component whose bytes identify (name, version); the padding makes download times differ
    let tag = format!("{name}@{version}");
    wat::parse_str(format!("(component (import \"{}\" (func)) (@custom \"pad\" \"{}\"))", tag.replace(':', "-").replace('@', "-v").replace('.', "x"), "x".repeat(pad))).expect("content")
}

async fn publish(config: &warg_client::Config, name: &PackageName, version: Option<&str>, bytes: Vec<u8>, init: bool) -> anyhow::Result<()> {
    let client = FileSystemClient::new_with_config(None, config, None).await?;
    let mut entries = Vec::with_capacity(2);
    if init {
        entries.push(PublishEntry::Init);
    }
    if let Some(version) = version {
        let digest = client.content().store_content(Box::pin(futures::stream::once(async move { Ok(bytes.into()) })), None).await?;
        entries.push(PublishEntry::Release { version: version.parse().unwrap(), content: digest });
    }
    let record_id = client.publish_with_info(&PrivateKey::decode(signing_key().to_string()).unwrap(), PublishInfo { name: name.clone(), head: None, entries }).await?;
    client.wait_for_publish(name, &record_id, Duration::from_secs(1)).await?;
    Ok(())
}

fn client_config(addr: &str, root: &Path) -> warg_client::Config {
    warg_client::Config {
        home_url: Some(addr.to_string()),
        registries_dir: Some(root.join("registries")),
        content_dir: Some(root.join("content")),
        namespace_map_path: Some(root.join("namespaces")),
        keyring_auth: false,
        keyring_backend: None,
        keys: Default::default(),
        ignore_federation_hints: false,
        disable_auto_accept_federation_hints: false,
        disable_auto_package_init: false,
        disable_interactive: true,
    }
}

struct World {
    addr: String,
    /// (name, version) -> bytes
    published: BTreeMap<(String, String), Vec<u8>>,
    runtimes: Vec<(usize, tokio::runtime::Runtime)>,
    _server_rt: tokio::runtime::Runtime,
    shutdown: CancellationToken,
    counter: AtomicU64,
}

fn start() -> anyhow::Result<World> {
    let _ = std::fs::remove_dir_all(ROOT);
    std::fs::create_dir_all(ROOT)?;
    let server_rt = tokio::runtime::Builder::new_multi_thread().worker_threads(2).enable_all().build()?;
    let shutdown = CancellationToken::new();
    let sd = shutdown.clone();
    let addr = server_rt.block_on(async move {
        let config = Config::new(PrivateKey::decode(operator_key().to_string())?, Some(vec![("test".to_string(), NamespaceState::Defined)]), Path::new(ROOT).join("server"))
            .with_addr(([127, 0, 0, 1], 0))
            .with_shutdown(sd.cancelled_owned())
            .with_checkpoint_interval(Duration::from_millis(100))
            .with_content_policy(WasmContentPolicy::default());
        let server = Server::new(config).initialize().await?;
        let addr = server.local_addr()?;
        tokio::spawn(async move {
            server.serve().await.unwrap();
        });
        anyhow::Ok(format!("http://{addr}"))
    })?;
    let mut published = BTreeMap::new();
    let pub_cfg = client_config(&addr, &Path::new(ROOT).join("publisher"));
    server_rt.block_on(async {
        for (name, releases) in PUBLISHED {
            let pn: PackageName = name.parse()?;
            if releases.is_empty() {
                publish(&pub_cfg, &pn, None, vec![], true).await?;
            }
            for (k, (version, pad)) in releases.iter().enumerate() {
                let bytes = content(name, version, *pad);
                publish(&pub_cfg, &pn, Some(version), bytes.clone(), k == 0).await?;
                published.insert((name.to_string(), version.to_string()), bytes);
            }
        }
        anyhow::Ok(())
    })?;
    let mut runtimes = vec![];
    for w in [1usize, 2, 8] {
        runtimes.push((w, tokio::runtime::Builder::new_multi_thread().worker_threads(w).enable_all().build()?));
    }
    Ok(World { addr, published, runtimes, _server_rt: server_rt, shutdown, counter: AtomicU64::new(0) })
}

/// The key pool: index -> (name, version)
const POOL: &[(&str, Option<&str>)] = &[
    ("test:a", None),
    ("test:a", Some("1.0.0")),
    ("test:a", Some("1.1.0")),
    ("test:a", Some("2.0.0")),
    ("test:b", None),
    ("test:b", Some("0.1.0")),
    ("test:c", None),
    ("test:c", Some("0.3.0")),
    ("test:c", Some("0.3.1")),
    ("test:d", None),
    ("test:d", Some("0.9.0")),
    ("test:d", Some("1.0.1")),
    // failures
    ("test:a", Some("9.9.9")),
    ("test:e", None),
    ("test:zz", None),
    ("test:zz", Some("1.0.0")),
    ("test:c", Some("0.2.0")),
];
const GOOD: usize = 12;

#[derive(Clone, Debug, Serialize, Deserialize)]
struct Case {
    /// indices into POOL (distinct, in request order)
    keys: Vec<u8>,
    runtime: u8,
    warm_cache: bool,
}

fn latest(name: &str) -> Option<semver::Version> {
    PUBLISHED.iter().find(|(n, _)| *n == name).and_then(|(_, rs)| rs.iter().map(|(v, _)| semver::Version::parse(v).unwrap()).max())
}

fn error_span(e: &Error) -> Option<SourceSpan> {
    match e {
        Error::PackageDoesNotExist { span, .. } | Error::PackageVersionDoesNotExist { span, .. } | Error::PackageNoReleases { span, .. } => Some(*span),
        _ => None,
    }
}

fn error_class(e: &Error) -> (String, String) {
    match e {
        Error::PackageDoesNotExist { name, .. } => ("PackageDoesNotExist".into(), name.clone()),
        Error::PackageVersionDoesNotExist { name, version, .. } => ("PackageVersionDoesNotExist".into(), format!("{name}@{version}")),
        Error::PackageNoReleases { name, .. } => ("PackageNoReleases".into(), name.clone()),
        other => (format!("{other:?}").split(|c: char| !c.is_alphanumeric()).next().unwrap_or("").to_string(), format!("{other}")),
    }
}

fn check(world: &World, c: &Case) -> Outcome {
    let mut picked: Vec<usize> = vec![];
    for k in &c.keys {
        let i = *k as usize % POOL.len();
        if !picked.contains(&i) {
            picked.push(i);
        }
    }
    let versions: Vec<Option<semver::Version>> = picked.iter().map(|i| POOL[*i].1.map(|v| semver::Version::parse(v).unwrap())).collect();
    let mut keys: IndexMap<BorrowedPackageKey<'_>, SourceSpan> = IndexMap::new();
    for (pos, i) in picked.iter().enumerate() {
        keys.insert(BorrowedPackageKey::from_name_and_version(POOL[*i].0, versions[pos].as_ref()), SourceSpan::new((pos * 10).into(), 5usize));
    }
    // ---- expectation from what was published
    let mut expected_errors: Vec<(String, String)> = vec![];
    let mut expected: BTreeMap<String, Vec<u8>> = BTreeMap::new();
    for (pos, i) in picked.iter().enumerate() {
        let (name, version) = POOL[*i];
        let exists = PUBLISHED.iter().any(|(n, _)| *n == name);
        if !exists {
            expected_errors.push(("PackageDoesNotExist".into(), name.to_string()));
            continue;
        }
        let v = match version {
            Some(v) => v.to_string(),
            None => match latest(name) {
                Some(v) => v.to_string(),
                None => {
                    expected_errors.push(("PackageNoReleases".into(), name.to_string()));
                    continue;
                }
            },
        };
        match world.published.get(&(name.to_string(), v.clone())) {
            Some(b) => {
                expected.insert(format!("{}", keys.get_index(pos).unwrap().0), b.clone());
            }
            None => expected_errors.push(("PackageVersionDoesNotExist".into(), format!("{name}@{v}"))),
        }
    }
    let names: Vec<&str> = picked.iter().map(|i| POOL[*i].0).collect();
    let shared = names.iter().any(|n| names.iter().filter(|m| *m == n).count() >= 2);
    let mixed = !expected_errors.is_empty() && !expected.is_empty();
    let (workers, rt) = &world.runtimes[c.runtime as usize % world.runtimes.len()];
    let mut o = Outcome::pass().nontrivial(shared || mixed).rendered(json!({"keys": keys.keys().map(|k| k.to_string()).collect::<Vec<_>>(), "workers": workers, "warm_cache": c.warm_cache}));
    if shared {
        o = o.label("keys-share-a-package-name");
    }
    if mixed {
        o = o.label("error-key-among-valid-keys");
    }
    if picked.iter().any(|i| POOL[*i].1.is_none()) && picked.iter().any(|i| POOL[*i].1.is_some() && picked.iter().any(|j| POOL[*j].1.is_none() && POOL[*j].0 == POOL[*i].0)) {
        o = o.label("versioned-and-unversioned-reference");
    }
    o = o.label(format!("workers-{workers}")).label(if c.warm_cache { "warm-cache" } else { "cold-cache" });
    // ---- wac
    let cache_root: PathBuf = if c.warm_cache { Path::new(ROOT).join("warm") } else { Path::new(ROOT).join(format!("cold-{}", world.counter.fetch_add(1, Ordering::SeqCst))) };
    let cfg = client_config(&world.addr, &cache_root);
    let result = guarded(|| {
        rt.block_on(async {
            let resolver = RegistryPackageResolver::new_with_config(None, &cfg, None).await.map_err(|e| format!("client: {e:#}"))?;
            match tokio::time::timeout(Duration::from_secs(60), resolver.resolve(&keys)).await {
                Err(_) => Err("timeout".to_string()),
                Ok(r) => Ok(r),
            }
        })
    });
    if !c.warm_cache {
        let _ = std::fs::remove_dir_all(&cache_root);
    }
    let result = match result {
        Err(p) => return o.with_verdict(Verdict::Fail { sig: format!("C20/panic:{}", panic_sig(&p)), msg: format!("resolve panicked: {p}") }),
        Ok(Err(e)) if e == "timeout" => return o.with_verdict(Verdict::GenInvalid("resolve did not finish within 60 s (inconclusive)".into())),
        Ok(Err(e)) => return o.with_verdict(Verdict::GenInvalid(e)),
        Ok(Ok(r)) => r,
    };
    let shape = if shared { ":shared-name" } else { "" };
    match result {
        Err(e) => {
            let got = error_class(&e);
            o = o.label("resolve-error");
            if expected_errors.is_empty() {
                return o.with_verdict(Verdict::Fail { sig: format!("C20/error-for-resolvable-keys:{}{shape}", got.0), msg: format!("every key is published, yet resolve fails with {e:?}") });
            }
            if !expected_errors.contains(&got) {
                return o.with_verdict(Verdict::Fail { sig: format!("C20/wrong-error:{}{shape}", got.0), msg: format!("resolve reports {got:?}; the failing keys are {expected_errors:?}") });
            }
            // the error is attributed to a key that asked for what is missing
            if let Some(span) = error_span(&e) {
                let asking: Vec<SourceSpan> = keys
                    .iter()
                    .filter(|(k, _)| match got.0.as_str() {
                        "PackageVersionDoesNotExist" => format!("{}@{}", k.name, k.version.map(|v| v.to_string()).unwrap_or_default()) == got.1,
                        "PackageNoReleases" => k.name == got.1 && k.version.is_none(),
                        _ => k.name == got.1,
                    })
                    .map(|(_, s)| *s)
                    .collect();
                if !asking.contains(&span) {
                    return o.with_verdict(Verdict::Fail { sig: format!("C20/error-attributed-to-another-key:{}{shape}", got.0), msg: format!("{got:?} is reported at span {span:?}; the keys that ask for it are at {asking:?}") });
                }
            }
            o.comparisons(2)
        }
        Ok(map) => {
            o = o.label("resolve-ok");
            if !expected_errors.is_empty() {
                return o.with_verdict(Verdict::Fail { sig: format!("C20/missing-error{shape}"), msg: format!("keys {expected_errors:?} cannot be resolved, yet resolve returns Ok with {} packages", map.len()) });
            }
            let mut n = 1;
            for (k, want) in &expected {
                n += 1;
                match map.iter().find(|(mk, _)| mk.to_string() == *k) {
                    None => return o.with_verdict(Verdict::Fail { sig: format!("C20/key-dropped{shape}"), msg: format!("requested key `{k}` is not in the result; result keys: {:?}", map.keys().map(|k| k.to_string()).collect::<Vec<_>>()) }),
                    Some((_, got)) => {
                        if got != want {
                            let whose = world.published.iter().find(|(_, b)| *b == got).map(|((n, v), _)| format!("{n}@{v}")).unwrap_or_else(|| "unknown content".into());
                            return o.with_verdict(Verdict::Fail { sig: format!("C20/wrong-content{shape}"), msg: format!("key `{k}` was given the content of {whose}") });
                        }
                    }
                }
            }
            if map.len() != expected.len() {
                return o.with_verdict(Verdict::Fail { sig: format!("C20/extra-keys{shape}"), msg: format!("result has {} entries for {} requested keys", map.len(), expected.len()) });
            }
            o.comparisons(n)
        }
    }
}

fn main() {
    let args: Vec<String> = std::env::args().skip(1).collect();
    let mut tier = Tier::Quick;
    let mut replay: Option<PathBuf> = None;
    let mut i = 0;
    while i < args.len() {
        match args[i].as_str() {
            "--tier" => {
                tier = if args[i + 1] == "thorough" { Tier::Thorough } else { Tier::Quick };
                i += 1;
            }
            "--replay" => {
                replay = Some(PathBuf::from(&args[i + 1]));
                i += 1;
            }
            _ => {}
        }
        i += 1;
    }
    let seed: u64 = std::env::var("VERIF_SEED").ok().and_then(|s| s.parse().ok()).unwrap_or(0);
    install_quiet_panic_hook();
    let world = match start() {
        Ok(w) => w,
        Err(e) => {
            eprintln!("BROKEN-CHECK: property=C20 could not start the in-process registry: {e:#}");
            std::process::exit(2);
        }
    };
    let mut run = Run::new(
        "C20",
        tier,
        seed,
        "exploration",
        "one in-process Warg server on 127.0.0.1 per run holding 5 packages (3, 1, 2, 3 releases with contents between 5 bytes and 300 kB of padding, published out of version order; one package initialised without releases); key sets of 1-6 distinct keys drawn from 17 (every name/version published, unversioned references, a missing version of an existing package, a package without releases, a package that does not exist) in generated request order, resolved through RegistryPackageResolver::resolve on tokio runtimes with 1, 2 or 8 workers and with a cold (fresh directory) or warm client cache; all orders of selected key sets enumerated. Oracle: what the harness published: every requested key present with exactly the bytes of (name, version) or of the highest release; with unresolvable keys, the error variant and the package/version it names must belong to one of them. Non-trivial = two keys share a package name, or an error key coexists with valid keys. Distinct by JSON hash.",
    );
    run.assume("download completion orders are perturbed (content sizes, worker counts, cache state), not enumerated");
    if let Some(p) = replay {
        run.replay_case::<Case, _>(&p, |c| check(&world, c));
        world.shutdown.cancel();
        std::process::exit(run.finish());
    }
    // all orders of a few key sets that mix shared names, unversioned references and size extremes
    let sets: &[&[u8]] = &[&[1, 3, 4], &[0, 2, 6, 8], &[1, 2, 3], &[0, 1, 5, 9], &[7, 8, 10, 11]];
    let mut fixed = vec![];
    for set in sets.iter().take(tier.pick(3, 5)) {
        let mut idx: Vec<usize> = (0..set.len()).collect();
        let mut perms = vec![];
        permutations(&mut idx, 0, &mut perms);
        for p in perms {
            for rt in 0..3u8 {
                fixed.push(Case { keys: p.iter().map(|i| set[*i]).collect(), runtime: rt, warm_cache: false });
            }
        }
    }
    run.set_extra("enumerated_orders", json!(fixed.len()));
    run.enumerate(&fixed, |c| check(&world, c));
    let n = tier.pick(6_000, 80_000);
    run.explore(
        1,
        8,
        n / 8,
        || {
            (proptest::collection::vec(prop_oneof![8 => 0u8..(GOOD as u8), 1 => (GOOD as u8)..(POOL.len() as u8)], 1..7), 0u8..3, proptest::bool::weighted(0.3)).prop_map(|(keys, runtime, warm_cache)| Case { keys, runtime, warm_cache })
        },
        |c| check(&world, c),
    );
    for l in ["keys-share-a-package-name", "error-key-among-valid-keys", "versioned-and-unversioned-reference", "resolve-ok", "resolve-error", "workers-1", "workers-8", "cold-cache", "warm-cache"] {
        run.floor(l, 10);
    }
    world.shutdown.cancel();
    let code = run.finish();
    let _ = std::fs::remove_dir_all(ROOT);
    std::process::exit(code);
}

fn permutations(v: &mut Vec<usize>, k: usize, out: &mut Vec<Vec<usize>>) {
    if k == v.len() {
        out.push(v.clone());
        return;
    }
    for i in k..v.len() {
        v.swap(k, i);
        permutations(v, k + 1, out);
        v.swap(k, i);
    }
}
