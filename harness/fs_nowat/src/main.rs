//! C18 helper: `FileSystemPackageResolver` built WITHOUT the `wat` feature.
//! usage: fs_nowat <root> <error_on_unknown:true|false>   ; stdin: {"overrides": {name: path}, "keys": [[name, version|null], ...]}
//! stdout: {"ok": [[key, hex], ...]} | {"err": "<Variant>:<name>"}
use indexmap::IndexMap;
use std::collections::HashMap;
use std::io::Read;

fn main() {
    let args: Vec<String> = std::env::args().collect();
    let root = &args[1];
    let strict = args[2] == "true";
    let mut input = String::new();
    std::io::stdin().read_to_string(&mut input).unwrap();
    let v: serde_json::Value = serde_json::from_str(&input).unwrap();
    let overrides: HashMap<String, std::path::PathBuf> = v["overrides"].as_object().map(|m| m.iter().map(|(k, p)| (k.clone(), p.as_str().unwrap().into())).collect()).unwrap_or_default();
    let keys_owned: Vec<(String, Option<semver::Version>)> = v["keys"]
        .as_array()
        .unwrap()
        .iter()
        .map(|k| (k[0].as_str().unwrap().to_string(), k[1].as_str().map(|s| semver::Version::parse(s).unwrap())))
        .collect();
    let mut keys = IndexMap::new();
    for (n, ver) in &keys_owned {
        keys.insert(wac_types::BorrowedPackageKey::from_name_and_version(n, ver.as_ref()), miette::SourceSpan::new(0.into(), 0));
    }
    let resolver = wac_resolver::FileSystemPackageResolver::new(root, overrides, strict);
    let out = match resolver.resolve(&keys) {
        Ok(m) => serde_json::json!({"ok": m.iter().map(|(k, b)| (k.to_string(), hex::encode(b))).collect::<Vec<_>>()}),
        Err(e) => {
            let s = match &e {
                wac_resolver::Error::UnknownPackage { name, .. } => format!("UnknownPackage:{name}"),
                wac_resolver::Error::PackageResolutionFailure { name, .. } => format!("PackageResolutionFailure:{name}"),
                other => format!("Other:{other}"),
            };
            serde_json::json!({ "err": s })
        }
    };
    println!("{out}");
}
