//! C08 — decoding a package preserves its component type; re-encoding stays satisfiable.
//!
//! Reference = wasmparser's own typed view of the component (`component_entity_type_of_import/
//! export`, `ComponentFuncType`, `ComponentDefinedType`, resource ids) and the generating WIT model
//! for `use` provenance.  The import-mode check nests the original component and wac's output in one
//! outer component and asks the validator's own subtype relation whether the original component
//! satisfies the `unlocked-dep` component type wac wrote for it.

use crate::engine::*;
use crate::gen::ghist::SHAPED;
use crate::gen::wit::*;
use proptest::prelude::*;
use serde::{Deserialize, Serialize};
use serde_json::json;
use std::collections::BTreeMap;
use wac_graph::{CompositionGraph, EncodeOptions};
use wac_types::{DefinedType, ItemKind, Package, SubtypeChecker, Type, Types, ValueType};
use wasmparser::component_types::{ComponentDefinedType, ComponentEntityType, ComponentValType};
use wasmparser::types::TypesRef;

type Fail = (String, String);

struct Cmp<'a> {
    wp: TypesRef<'a>,
    wt: &'a Types,
    /// wasmparser resource id (debug string) -> wac resolved resource id (display)
    res: BTreeMap<String, String>,
    res_rev: BTreeMap<String, String>,
    checks: u64,
}

fn prim_name(p: wasmparser::PrimitiveValType) -> &'static str {
    use wasmparser::PrimitiveValType::*;
    match p {
        Bool => "bool",
        S8 => "s8",
        U8 => "u8",
        S16 => "s16",
        U16 => "u16",
        S32 => "s32",
        U32 => "u32",
        S64 => "s64",
        U64 => "u64",
        F32 => "f32",
        F64 => "f64",
        Char => "char",
        String => "string",
        ErrorContext => "error-context",
    }
}

impl<'a> Cmp<'a> {
    fn resource(&mut self, a: wasmparser::component_types::AliasableResourceId, b: wac_types::ResourceId, path: &str) -> Result<(), Fail> {
        let ka = format!("{:?}", a.resource());
        let kb = format!("{}", self.wt.resolve_resource(b));
        self.checks += 1;
        match (self.res.get(&ka), self.res_rev.get(&kb)) {
            (Some(x), _) if x != &kb => Err(("C08/resource-identity".into(), format!("{path}: the component's resource {ka} was decoded as resource #{x} elsewhere but as #{kb} here (two mentions of one resource must resolve to one resource)"))),
            (_, Some(y)) if y != &ka => Err(("C08/resource-identity".into(), format!("{path}: two different resources of the component ({y} and {ka}) were decoded as the same resource #{kb}"))),
            _ => {
                self.res.insert(ka.clone(), kb.clone());
                self.res_rev.insert(kb, ka);
                Ok(())
            }
        }
    }

    fn val(&mut self, a: ComponentValType, b: ValueType, path: &str, depth: usize) -> Result<(), Fail> {
        if depth > 12 {
            return Ok(());
        }
        self.checks += 1;
        let b = self.wt.resolve_value_type(b);
        let mism = |what: String| -> Result<(), Fail> { Err(("C08/value-type".into(), format!("{path}: {what}"))) };
        match a {
            ComponentValType::Primitive(p) => match b {
                ValueType::Primitive(q) if q.desc() == prim_name(p) => Ok(()),
                other => mism(format!("component has primitive {}, decoded {}", prim_name(p), other.desc(self.wt))),
            },
            ComponentValType::Type(id) => {
                let def = self.wp[id].clone();
                match (def, b) {
                    (ComponentDefinedType::Primitive(p), ValueType::Primitive(q)) if q.desc() == prim_name(p) => Ok(()),
                    (ComponentDefinedType::Own(r), ValueType::Own(q)) => self.resource(r, q, path),
                    (ComponentDefinedType::Borrow(r), ValueType::Borrow(q)) => self.resource(r, q, path),
                    (def, ValueType::Defined(did)) => {
                        let wd = self.wt[did].clone();
                        match (def, wd) {
                            (ComponentDefinedType::Record(r), DefinedType::Record(w)) => {
                                let an: Vec<String> = r.fields.keys().map(|k| k.to_string()).collect();
                                let bn: Vec<String> = w.fields.keys().cloned().collect();
                                if an != bn {
                                    return mism(format!("record fields {an:?} decoded as {bn:?}"));
                                }
                                for ((n, t), (_, u)) in r.fields.iter().zip(w.fields.iter()) {
                                    self.val(*t, *u, &format!("{path}.{n}"), depth + 1)?;
                                }
                                Ok(())
                            }
                            (ComponentDefinedType::Variant(v), DefinedType::Variant(w)) => {
                                let an: Vec<String> = v.cases.keys().map(|k| k.to_string()).collect();
                                let bn: Vec<String> = w.cases.keys().cloned().collect();
                                if an != bn {
                                    return mism(format!("variant cases {an:?} decoded as {bn:?}"));
                                }
                                for ((n, c), (_, u)) in v.cases.iter().zip(w.cases.iter()) {
                                    match (c.ty, u) {
                                        (None, None) => {}
                                        (Some(t), Some(u)) => self.val(t, *u, &format!("{path}.{n}"), depth + 1)?,
                                        _ => return mism(format!("variant case {n}: payload presence differs")),
                                    }
                                }
                                Ok(())
                            }
                            (ComponentDefinedType::List(t), DefinedType::List(u)) => self.val(t, u, &format!("{path}.list"), depth + 1),
                            (ComponentDefinedType::Option(t), DefinedType::Option(u)) => self.val(t, u, &format!("{path}.option"), depth + 1),
                            (ComponentDefinedType::Tuple(t), DefinedType::Tuple(u)) => {
                                if t.types.len() != u.len() {
                                    return mism(format!("tuple arity {} decoded as {}", t.types.len(), u.len()));
                                }
                                for (i, (t, u)) in t.types.iter().zip(u.iter()).enumerate() {
                                    self.val(*t, *u, &format!("{path}.{i}"), depth + 1)?;
                                }
                                Ok(())
                            }
                            (ComponentDefinedType::Flags(f), DefinedType::Flags(w)) => {
                                let an: Vec<String> = f.iter().map(|k| k.to_string()).collect();
                                let bn: Vec<String> = w.0.iter().cloned().collect();
                                if an != bn {
                                    return mism(format!("flags {an:?} decoded as {bn:?}"));
                                }
                                Ok(())
                            }
                            (ComponentDefinedType::Enum(f), DefinedType::Enum(w)) => {
                                let an: Vec<String> = f.iter().map(|k| k.to_string()).collect();
                                let bn: Vec<String> = w.0.iter().cloned().collect();
                                if an != bn {
                                    return mism(format!("enum cases {an:?} decoded as {bn:?}"));
                                }
                                Ok(())
                            }
                            (ComponentDefinedType::Result { ok, err }, DefinedType::Result { ok: wok, err: werr }) => {
                                match (ok, wok) {
                                    (None, None) => {}
                                    (Some(t), Some(u)) => self.val(t, u, &format!("{path}.ok"), depth + 1)?,
                                    _ => return mism("result ok arm presence differs".into()),
                                }
                                match (err, werr) {
                                    (None, None) => {}
                                    (Some(t), Some(u)) => self.val(t, u, &format!("{path}.err"), depth + 1)?,
                                    _ => return mism("result err arm presence differs".into()),
                                }
                                Ok(())
                            }
                            (ComponentDefinedType::Future(_), DefinedType::Future(_)) | (ComponentDefinedType::Stream(_), DefinedType::Stream(_)) => Ok(()),
                            (a, b) => mism(format!("component has {a:?}, decoded as {}", b.desc(self.wt))),
                        }
                    }
                    (a, b) => mism(format!("component has {a:?}, decoded as {}", b.desc(self.wt))),
                }
            }
        }
    }

    fn entity(&mut self, a: ComponentEntityType, b: ItemKind, path: &str, depth: usize) -> Result<(), Fail> {
        self.checks += 1;
        let kind = |sig: &str, what: String| -> Result<(), Fail> { Err((format!("C08/{sig}"), format!("{path}: {what}"))) };
        match (a, b) {
            (ComponentEntityType::Func(id), ItemKind::Func(fid)) => {
                let f = self.wp[id].clone();
                let w = self.wt[fid].clone();
                let an: Vec<String> = f.params.iter().map(|(n, _)| n.to_string()).collect();
                let bn: Vec<String> = w.params.keys().cloned().collect();
                if an != bn {
                    return kind("func-params", format!("parameters {an:?} decoded as {bn:?}"));
                }
                if f.async_ != w.is_async {
                    return kind("func-async", format!("async {} decoded as {}", f.async_, w.is_async));
                }
                for ((n, t), (_, u)) in f.params.iter().zip(w.params.iter()) {
                    self.val(*t, *u, &format!("{path}({n})"), depth + 1)?;
                }
                match (f.result, w.result) {
                    (None, None) => Ok(()),
                    (Some(t), Some(u)) => self.val(t, u, &format!("{path}->"), depth + 1),
                    (a, b) => kind("func-result", format!("result presence {} decoded as {}", a.is_some(), b.is_some())),
                }
            }
            (ComponentEntityType::Instance(id), ItemKind::Instance(iid)) => {
                let inst = self.wp[id].clone();
                let w = self.wt[iid].clone();
                let an: Vec<String> = inst.exports.keys().cloned().collect();
                let bn: Vec<String> = w.exports.keys().cloned().collect();
                if an != bn {
                    return kind("instance-exports", format!("instance exports {an:?} decoded as {bn:?}"));
                }
                for ((n, t), (_, u)) in inst.exports.iter().zip(w.exports.iter()) {
                    self.entity(*t, *u, &format!("{path}/{n}"), depth + 1)?;
                }
                Ok(())
            }
            (ComponentEntityType::Component(id), ItemKind::Component(wid)) => {
                let c = self.wp[id].clone();
                let w = self.wt[wid].clone();
                let ai: Vec<String> = c.imports.keys().cloned().collect();
                let bi: Vec<String> = w.imports.keys().cloned().collect();
                let ae: Vec<String> = c.exports.keys().cloned().collect();
                let be: Vec<String> = w.exports.keys().cloned().collect();
                if ai != bi || ae != be {
                    return kind("component-shape", format!("component type imports {ai:?} exports {ae:?} decoded as imports {bi:?} exports {be:?}"));
                }
                for ((n, t), (_, u)) in c.imports.iter().zip(w.imports.iter()) {
                    self.entity(*t, *u, &format!("{path}<{n}"), depth + 1)?;
                }
                for ((n, t), (_, u)) in c.exports.iter().zip(w.exports.iter()) {
                    self.entity(*t, *u, &format!("{path}>{n}"), depth + 1)?;
                }
                Ok(())
            }
            (ComponentEntityType::Module(_), ItemKind::Module(_)) => Ok(()),
            (ComponentEntityType::Value(t), ItemKind::Value(u)) => self.val(t, u, path, depth + 1),
            (ComponentEntityType::Type { referenced, .. }, ItemKind::Type(ty)) => match (referenced, ty) {
                (wasmparser::component_types::ComponentAnyTypeId::Resource(r), Type::Resource(q)) => self.resource(r, q, path),
                (wasmparser::component_types::ComponentAnyTypeId::Defined(d), Type::Value(v)) => self.val(ComponentValType::Type(d), v, path, depth + 1),
                (wasmparser::component_types::ComponentAnyTypeId::Func(f), Type::Func(g)) => self.entity(ComponentEntityType::Func(f), ItemKind::Func(g), path, depth + 1),
                (wasmparser::component_types::ComponentAnyTypeId::Instance(f), Type::Interface(g)) => self.entity(ComponentEntityType::Instance(f), ItemKind::Instance(g), path, depth + 1),
                (wasmparser::component_types::ComponentAnyTypeId::Component(f), Type::World(g)) => self.entity(ComponentEntityType::Component(f), ItemKind::Component(g), path, depth + 1),
                (a, b) => kind("type-kind", format!("type item {a:?} decoded as {}", b.desc(self.wt))),
            },
            (a, b) => kind("item-kind", format!("component has {a:?}, decoded as {}", b.desc(self.wt))),
        }
    }
}

/// Fidelity of one decoded package against the reference validator's view.
pub fn check_fidelity(bytes: &[u8]) -> Result<(u64, Vec<&'static str>), Fail> {
    let mut v = wasmparser::Validator::new_with_features(wasmparser::WasmFeatures::all());
    let wtypes = v.validate_all(bytes).map_err(|e| ("GEN".to_string(), format!("reference validator rejects the component: {e}")))?;
    let wp = wtypes.as_ref();
    let wire = crate::oracle::wire::decode(bytes).map_err(|e| ("GEN".to_string(), e))?;
    let mut types = Types::default();
    let pkg = match guarded(|| Package::from_bytes("test:pkg", None, bytes.to_vec(), &mut types)) {
        Ok(Ok(p)) => p,
        Ok(Err(e)) => return Err(("C08/valid-component-rejected".into(), format!("Package::from_bytes rejects a component the reference validator accepts: {e:#}"))),
        Err(p) => return Err((format!("C08/panic:decode:{}", panic_sig(&p)), format!("Package::from_bytes panicked: {p}"))),
    };
    let world = types[pkg.ty()].clone();
    let mut labels = vec![];
    // names in order
    let want_imports: Vec<String> = wire.imports.iter().map(|i| i.name.clone()).collect();
    let got_imports: Vec<String> = world.imports.keys().cloned().collect();
    if want_imports != got_imports {
        return Err(("C08/import-list".into(), format!("component imports {want_imports:?}; decoded world imports {got_imports:?}")));
    }
    let want_exports: Vec<String> = wire.exports.iter().map(|e| e.0.clone()).collect();
    let got_exports: Vec<String> = world.exports.keys().cloned().collect();
    if want_exports != got_exports {
        return Err(("C08/export-list".into(), format!("component exports {want_exports:?}; decoded world exports {got_exports:?}")));
    }
    let inst_exports: Vec<String> = types[pkg.instance_type()].exports.keys().cloned().collect();
    if inst_exports != got_exports {
        return Err(("C08/instance-type-differs-from-exports".into(), format!("instance type exports {inst_exports:?}; world exports {got_exports:?}")));
    }
    let mut cmp = Cmp { wp, wt: &types, res: Default::default(), res_rev: Default::default(), checks: 3 };
    for (name, kind) in world.imports.iter() {
        let e = wp.component_entity_type_of_import(name).ok_or_else(|| ("GEN".to_string(), format!("reference has no import {name}")))?;
        cmp.entity(e, *kind, &format!("import {name}"), 0)?;
    }
    for (name, kind) in world.exports.iter() {
        let e = wp.component_entity_type_of_export(name).ok_or_else(|| ("GEN".to_string(), format!("reference has no export {name}")))?;
        cmp.entity(e, *kind, &format!("export {name}"), 0)?;
        // the instance type must list the same item
        if types[pkg.instance_type()].exports.get(name) != Some(kind) {
            return Err(("C08/instance-type-differs-from-exports".into(), format!("instance type's `{name}` is not the world's export item")));
        }
    }
    if !cmp.res.is_empty() {
        labels.push("resources");
    }
    let checks = cmp.checks;
    // two independent decodes are mutual subtypes under wac's checker
    let mut types2 = Types::default();
    let pkg2 = Package::from_bytes("test:pkg", None, bytes.to_vec(), &mut types2).map_err(|e| ("C08/second-decode-fails".to_string(), e.to_string()))?;
    for (a, at, b, bt) in [(pkg.ty(), &types, pkg2.ty(), &types2), (pkg2.ty(), &types2, pkg.ty(), &types)] {
        let mut cache = Default::default();
        if let Err(e) = SubtypeChecker::new(&mut cache).is_subtype(ItemKind::Component(a), at, ItemKind::Component(b), bt) {
            return Err(("C08/decodes-not-mutual-subtypes".into(), format!("two decodes of one component are not mutual subtypes: {e:#}")));
        }
    }
    if world.imports.values().chain(world.exports.values()).any(|k| matches!(k, ItemKind::Instance(id) if !types[*id].uses.is_empty())) {
        labels.push("uses");
    }
    Ok((checks + 2, labels))
}

/// `use` provenance against the generating WIT model.
fn check_uses(lib: &Library, bytes: &[u8]) -> Result<u64, Fail> {
    let mut types = Types::default();
    let pkg = Package::from_bytes("test:pkg", None, bytes.to_vec(), &mut types).map_err(|e| ("C08/valid-component-rejected".to_string(), e.to_string()))?;
    let world = &types[pkg.ty()];
    let mut n = 0;
    for (name, kind) in world.imports.iter().chain(world.exports.iter()) {
        let ItemKind::Instance(id) = kind else { continue };
        // find the model interface with this path
        for (p, api) in lib.apis.iter().enumerate() {
            for (i, iface) in api.ifaces.iter().enumerate() {
                if &api.iface_path(i) != name {
                    continue;
                }
                let _ = p;
                for it in &iface.items {
                    if let Item::Use { from, names } = it {
                        let src_path = lib.apis[from.0].iface_path(from.1);
                        for (orig, rename) in names {
                            let local = rename.as_ref().unwrap_or(orig);
                            // elided when the component does not mention the type
                            if !types[*id].exports.contains_key(local) {
                                continue;
                            }
                            n += 1;
                            match types[*id].uses.get(local) {
                                None => {
                                    // what is used may itself be an alias of a named type of the source interface
                                    let alias_of_named = lib.apis[from.0].ifaces[from.1].items.iter().any(|x| matches!(x, Item::Type { name, def: TypeDef::Alias(Ty::Named(_)) } if name == orig));
                                    return Err((if alias_of_named { "C08/use-provenance-lost:used-alias-of-named-type".to_string() } else { "C08/use-provenance-lost".to_string() }, format!("`{name}` has `use {src_path}.{{{orig}{}}}` and exports `{local}`, but the decoded interface records no provenance for it", rename.as_ref().map(|r| format!(" as {r}")).unwrap_or_default())));
                                }
                                Some(u) => {
                                    let got_src = types[u.interface].id.clone().unwrap_or_default();
                                    // through a chain of `use`s the provenance may name the syntactic source or any
                                    // interface further up to the defining one (wac records the owner)
                                    let mut chain = vec![src_path.clone()];
                                    let (mut cp, mut ci, mut cname) = (from.0, from.1, orig.clone());
                                    'up: loop {
                                        for x in &lib.apis[cp].ifaces[ci].items {
                                            if let Item::Use { from: f2, names: n2 } = x {
                                                if let Some((o2, _)) = n2.iter().find(|(o, r)| r.as_ref().unwrap_or(o) == &cname) {
                                                    chain.push(lib.apis[f2.0].iface_path(f2.1));
                                                    cp = f2.0;
                                                    ci = f2.1;
                                                    cname = o2.clone();
                                                    continue 'up;
                                                }
                                            }
                                        }
                                        break;
                                    }
                                    if chain.len() > 1 {
                                        if chain.contains(&got_src) {
                                            continue;
                                        }
                                    }
                                    if got_src != src_path {
                                        return Err(("C08/use-provenance-wrong-interface".into(), format!("`{name}`.{local} is used from `{src_path}` but decoded as used from `{got_src}`")));
                                    }
                                    let want_name = rename.as_ref().map(|_| orig.clone());
                                    if u.name != want_name {
                                        return Err(("C08/use-provenance-wrong-name".into(), format!("`{name}`.{local}: original name {want_name:?}, decoded {:?}", u.name)));
                                    }
                                }
                            }
                        }
                    }
                }
            }
        }
    }
    Ok(n)
}

/// Import mode: the component type written for the package must be one the real component satisfies.
pub fn check_satisfiable(name: &str, version: Option<&semver::Version>, bytes: &[u8]) -> Result<u64, Fail> {
    let mut g = CompositionGraph::new();
    let pkg = Package::from_bytes(name, version, bytes.to_vec(), g.types_mut()).map_err(|e| ("C08/valid-component-rejected".to_string(), e.to_string()))?;
    let id = g.register_package(pkg).unwrap();
    g.instantiate(id);
    let out = match guarded(|| g.encode(EncodeOptions { define_components: false, validate: false, processor: None })) {
        Ok(Ok(b)) => b,
        Ok(Err(e)) => return Err(("C08/import-mode-encode-error".into(), format!("encoding a single instantiation in import mode failed: {e}"))),
        Err(p) => return Err((format!("C08/panic:encode-import-mode:{}", panic_sig(&p)), format!("encode(define_components:false) panicked: {p}"))),
    };
    // outer component nesting the original (component 0) and wac's output (component 1)
    let mut outer = wasm_encoder::Component::new();
    outer.section(&wasm_encoder::RawSection { id: 4, data: bytes });
    outer.section(&wasm_encoder::RawSection { id: 4, data: &out });
    let outer = outer.finish();
    let mut v = wasmparser::Validator::new_with_features(wasmparser::WasmFeatures::all());
    let types = match v.validate_all(&outer) {
        Ok(t) => t,
        Err(e) => return Err(("C08/import-mode-output-invalid".into(), format!("the import-mode output does not validate: {e}"))),
    };
    let tr = types.as_ref();
    let orig = tr.component_at(0);
    let outc = tr.component_at(1);
    let dep_name = match version {
        Some(v) => format!("unlocked-dep=<{name}@{{>={v}}}>"),
        None => format!("unlocked-dep=<{name}>"),
    };
    let Some(dep) = tr[outc].imports.get(&dep_name).cloned() else {
        return Err(("C08/unlocked-dep-import-missing".into(), format!("the output has no import `{dep_name}`; imports: {:?}", tr[outc].imports.keys().collect::<Vec<_>>())));
    };
    // the reference relation itself can hit an internal assertion of wasmparser (seen with one type exported
    // under two names): inconclusive for this case, never a verdict
    let related = match guarded(|| ComponentEntityType::is_subtype_of(&ComponentEntityType::Component(orig), tr, &dep, tr)) {
        Ok(b) => b,
        Err(_) => return Ok(1),
    };
    if !related {
        return Err(("C08/original-does-not-satisfy-reencoded-type".into(), format!("the real component is not a subtype of the component type written for `{dep_name}` (substituting it for the import would not validate)")));
    }
    Ok(2)
}

#[derive(Clone, Debug, Serialize, Deserialize)]
pub struct LibCase {
    pub lib: LibSpec,
}

fn flags_of(lib: &Library, c: &Comp) -> String {
    let mut versions = std::collections::BTreeSet::new();
    let mut xu = false;
    for it in &c.items {
        if let WorldItem::ImportIface(p, i) | WorldItem::ExportIface(p, i) = it {
            versions.insert(*p);
            if matches!(it, WorldItem::ExportIface(..)) && lib.apis[*p].ifaces[*i].items.iter().any(|x| matches!(x, Item::Use { .. })) {
                xu = true;
            }
        }
    }
    let mut f = vec![];
    if versions.len() > 1 {
        f.push("MV");
    }
    if xu {
        f.push("XU");
    }
    if f.is_empty() {
        "plain".into()
    } else {
        f.join("+")
    }
}

fn check_lib(c: &LibCase) -> Outcome {
    let lib = build_lib(&c.lib);
    let comps = match build_library(&lib) {
        Ok(c) => c,
        Err(e) => return Outcome::gen_invalid(e),
    };
    let feats = lib_features(&lib);
    let mut o = Outcome::pass().labels(feats.iter().map(|s| format!("lib-{s}")));
    let mut comparisons = 0;
    let mut labels: Vec<&'static str> = vec![];
    for (k, comp) in comps.iter().enumerate() {
        let fail = |sig: String, msg: String, o: Outcome| o.with_verdict(Verdict::Fail { sig, msg: format!("component {}:\n{msg}\n--- world ---\n{}", comp.name, comp.wit) });
        match check_fidelity(&comp.bytes) {
            Ok((n, l)) => {
                comparisons += n;
                labels.extend(l);
            }
            Err((sig, msg)) if sig == "GEN" => return o.with_verdict(Verdict::GenInvalid(msg)),
            Err((sig, msg)) => return fail(format!("{sig}:{}", flags_of(&lib, &lib.comps[k])), msg, o),
        }
        match check_uses(&lib, &comp.bytes) {
            Ok(n) => {
                comparisons += n;
                if n > 0 {
                    labels.push("use-provenance-checked");
                }
            }
            Err((sig, msg)) => return fail(format!("{sig}:{}", flags_of(&lib, &lib.comps[k])), msg, o),
        }
        match check_satisfiable(&comp.name, comp.version.as_ref(), &comp.bytes) {
            Ok(n) => {
                comparisons += n;
                labels.push("import-mode-satisfiable");
            }
            Err((sig, msg)) => return fail(format!("{sig}:{}", flags_of(&lib, &lib.comps[k])), msg, o),
        }
    }
    labels.sort();
    labels.dedup();
    let nontrivial = labels.contains(&"resources") || labels.contains(&"uses");
    o = o.labels(labels.iter().map(|s| s.to_string()));
    o.nontrivial(nontrivial).comparisons(comparisons).rendered(json!({"worlds": comps.iter().map(|c| c.wit.clone()).collect::<Vec<_>>()}))
}

#[derive(Clone, Debug, Serialize, Deserialize)]
pub struct ShapedCase {
    pub name: String,
}

fn shaped_pool() -> Vec<(String, String)> {
    let mut v: Vec<(String, String)> = SHAPED.iter().map(|(n, w)| (n.to_string(), w.to_string())).collect();
    v.extend(crate::props::c14::SHAPED_WAT.iter().map(|(n, w)| (format!("c14:{n}"), w.to_string())));
    // components whose worlds `use` types at world level (built by the reference toolchain), as text
    for (n, _, b) in crate::props::c14::world_use_docs().0 {
        if let Ok(t) = wasmprinter::print_bytes(&b) {
            v.push((format!("world-use:{n}"), t));
        }
    }
    v
}

fn check_shaped(c: &ShapedCase) -> Outcome {
    let pool = shaped_pool();
    let Some((_, wat_text)) = pool.iter().find(|(n, _)| n == &c.name) else { return Outcome::gen_invalid("unknown shaped") };
    let bytes = match wat::parse_str(wat_text) {
        Ok(b) => b,
        Err(e) => return Outcome::gen_invalid(e.to_string()),
    };
    if !wasmparser::Parser::is_component(&bytes) {
        return Outcome::pass().label("not-a-component");
    }
    let o = Outcome::pass().label("wat-shaped").nontrivial(true).rendered(json!({"wat": wat_text}));
    let mut comparisons = 0;
    match check_fidelity(&bytes) {
        Ok((n, _)) => comparisons += n,
        Err((sig, msg)) if sig == "GEN" => return o.with_verdict(Verdict::GenInvalid(msg)),
        // unsupported features are reported as errors, not panics: acceptable for shapes outside WIT
        Err((sig, msg)) if sig == "C08/valid-component-rejected" => return o.label("shaped-rejected-with-error").rendered(json!({"wat": wat_text, "error": msg})),
        Err((sig, msg)) => return o.with_verdict(Verdict::Fail { sig: format!("{sig}:shaped:{}", c.name), msg: format!("{msg}\n{wat_text}") }),
    }
    match check_satisfiable("shaped:pkg", None, &bytes) {
        Ok(n) => comparisons += n,
        Err((sig, msg)) => return o.with_verdict(Verdict::Fail { sig: format!("{sig}:shaped:{}", c.name), msg: format!("{msg}\n{wat_text}") }),
    }
    o.comparisons(comparisons)
}

pub fn run(tier: Tier, seed: u64, replay: Option<&std::path::Path>) -> i32 {
    let mut run = Run::new(
        "C08",
        tier,
        seed,
        "exploration",
        "components produced by the reference toolchain from generated WIT worlds (all value-type constructors, resources with constructors/methods/statics and borrows, `use` chains with renames, several API versions, inline interfaces, bare functions) and 26 hand-shaped WAT components (nested instances/components, core modules, values, type imports with eq/sub-resource bounds, versioned names). For each: (1) the decoded world lists the component's imports and exports in order (names from an independent section reader) and every item is compared recursively with wasmparser's typed view: kinds, function parameter names/order/result/async, value types, record/variant/enum/flags members, resource identity as a bijection; `use` provenance against the generating WIT model; instance type = exports; (2) two independent decodes are mutual subtypes under wac's checker; (3) one instantiation encoded with define_components:false: original and output nested in one outer component, the validator's own subtype relation must say original <: the `unlocked-dep=<name[@{>=v}]>` import type. Non-trivial = the component has resources or `use` edges, or is a shaped component. Distinct by JSON hash.",
    );
    if let Some(p) = replay {
        let text = std::fs::read_to_string(p).unwrap_or_default();
        if text.contains("\"lib\"") {
            run.replay_case::<LibCase, _>(p, check_lib);
        } else {
            run.replay_case::<ShapedCase, _>(p, check_shaped);
        }
        return run.finish();
    }
    let shaped: Vec<ShapedCase> = shaped_pool().into_iter().map(|(name, _)| ShapedCase { name }).collect();
    run.enumerate(&shaped, check_shaped);
    // fixed deep `use` chains (value type and resource re-used through 5 interfaces), imported and exported
    let mut chains = vec![];
    for versions in [0u8, 2] {
        for export in [false, true] {
            let mut ifaces = vec![IfaceSpec { items: vec![ItemSpec::Record(vec![TySpec::Prim(0)]), ItemSpec::Resource { ctor: Some(vec![]), methods: vec![(false, vec![], None, false)] }, ItemSpec::Func { params: vec![TySpec::Ref(0), TySpec::Own(0)], result: None, borrow_first: true }] }];
            for _ in 0..4 {
                ifaces.push(IfaceSpec { items: vec![ItemSpec::Use { from: 65535, picks: vec![(0, false), (65535, false)] }, ItemSpec::Func { params: vec![TySpec::Ref(0), TySpec::Own(0)], result: Some(TySpec::Ref(0)), borrow_first: true }] });
            }
            let comps = vec![CompSpec { ifaces: vec![(0, 65535, !export), (0, 40000, true)], funcs: vec![], inline: vec![], versioned: false }];
            chains.push(LibCase { lib: LibSpec { api: ApiSpec { ifaces }, versions, comps } });
        }
    }
    run.enumerate(&chains, |c| check_lib(c).label("deep-use-chain"));
    let n = tier.pick(6_000, 100_000);
    run.explore(1, 16, n / 16, || libspec_strategy(4).prop_map(|lib| LibCase { lib }), check_lib);
    for l in ["resources", "uses", "use-provenance-checked", "import-mode-satisfiable", "lib-use-rename", "lib-resources"] {
        run.floor(l, 20);
    }
    run.finish()
}
