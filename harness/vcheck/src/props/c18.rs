//! C18 — file-system dependency lookup follows the documented layout and precedence.
//!
//! Exhaustive decision table over materialised directory trees; model = DESIGN.md Appendix D
//! (README "Dependencies" + the statement).  The build without the `wat` feature is exercised
//! through the `fs_nowat` helper binary.

use crate::engine::*;
use indexmap::IndexMap;
use serde::{Deserialize, Serialize};
use serde_json::json;
use std::collections::HashMap;
use std::path::{Path, PathBuf};

#[derive(Clone, Copy, Debug, Serialize, Deserialize, PartialEq, Eq)]
pub enum AtP {
    Absent,
    WitDir,
    BadWitDir,
    PlainFile,
}
#[derive(Clone, Copy, Debug, Serialize, Deserialize, PartialEq, Eq)]
pub enum Wasm {
    Absent,
    Component,
    Garbage,
}
#[derive(Clone, Copy, Debug, Serialize, Deserialize, PartialEq, Eq)]
pub enum Wat {
    Absent,
    Text,
    BadText,
    Binary,
}
#[derive(Clone, Copy, Debug, Serialize, Deserialize, PartialEq, Eq)]
pub enum Override {
    None,
    WasmFile,
    WatFile,
    WitFile,
    Dangling,
    /// an override registered for another package name
    Unrelated,
}

#[derive(Clone, Debug, Serialize, Deserialize)]
pub struct Case {
    pub key: (String, Option<String>),
    pub at_p: AtP,
    pub wasm: Wasm,
    pub wat: Wat,
    pub over: Override,
    pub strict: bool,
    pub wat_feature: bool,
    /// a decoy file whose name is the version with its last component replaced by the extension (`1.2.wasm` for `1.2.3`)
    pub decoy: bool,
}

const COMPONENT_WASM: &str = r#"(component (import "from-wasm" (func)))"#;
const COMPONENT_WAT: &str = r#"(component (import "from-wat" (func)))"#;
const COMPONENT_OVERRIDE: &str = r#"(component (import "from-override" (func)))"#;
const COMPONENT_DECOY: &str = r#"(component (import "decoy" (func)))"#;
const COMPONENT_BINARY_IN_WAT: &str = r#"(component (import "binary-in-wat" (func)))"#;
const WIT_TEXT: &str = "package x:y;\ninterface i { f: func(); }\n";

fn wit_dir_bytes(dir: &Path) -> Result<Vec<u8>, String> {
    let mut resolve = wit_parser::Resolve::default();
    let (pkg, _) = resolve.push_dir(dir).map_err(|e| format!("{e:#}"))?;
    wit_component::encode(&resolve, pkg).map_err(|e| format!("{e:#}"))
}

fn wit_file_bytes(file: &Path) -> Result<Vec<u8>, String> {
    let mut resolve = wit_parser::Resolve::default();
    let pkg = resolve.push_file(file).map_err(|e| format!("{e:#}"))?;
    wit_component::encode(&resolve, pkg).map_err(|e| format!("{e:#}"))
}

#[derive(Debug, PartialEq, Eq)]
enum Expected {
    Bytes(Vec<u8>),
    Skipped,
    Unknown,
    Failure,
}

fn base_path(root: &Path, key: &(String, Option<String>)) -> PathBuf {
    let mut p = root.to_path_buf();
    for seg in key.0.split(':') {
        p.push(seg);
    }
    if let Some(v) = &key.1 {
        p.push(v);
    }
    p
}

fn with_ext(p: &Path, ext: &str) -> PathBuf {
    let mut s = p.as_os_str().to_os_string();
    s.push(".");
    s.push(ext);
    PathBuf::from(s)
}

struct Tree {
    root: PathBuf,
    overrides: HashMap<String, PathBuf>,
}

fn materialise(c: &Case, scratch: &Path) -> Tree {
    let root = scratch.join("deps");
    let p = base_path(&root, &c.key);
    std::fs::create_dir_all(p.parent().unwrap()).unwrap();
    match c.at_p {
        AtP::Absent => {}
        AtP::WitDir => {
            std::fs::create_dir_all(&p).unwrap();
            std::fs::write(p.join("a.wit"), WIT_TEXT).unwrap();
        }
        AtP::BadWitDir => {
            std::fs::create_dir_all(&p).unwrap();
            std::fs::write(p.join("a.wit"), "this is not wit {{{").unwrap();
        }
        AtP::PlainFile => std::fs::write(&p, wat::parse_str(COMPONENT_DECOY).unwrap()).unwrap(),
    }
    match c.wasm {
        Wasm::Absent => {}
        Wasm::Component => std::fs::write(with_ext(&p, "wasm"), wat::parse_str(COMPONENT_WASM).unwrap()).unwrap(),
        Wasm::Garbage => std::fs::write(with_ext(&p, "wasm"), b"garbage, not wasm").unwrap(),
    }
    match c.wat {
        Wat::Absent => {}
        Wat::Text => std::fs::write(with_ext(&p, "wat"), COMPONENT_WAT).unwrap(),
        Wat::BadText => std::fs::write(with_ext(&p, "wat"), "(component (((").unwrap(),
        Wat::Binary => std::fs::write(with_ext(&p, "wat"), wat::parse_str(COMPONENT_BINARY_IN_WAT).unwrap()).unwrap(),
    }
    if c.decoy {
        if let Some(v) = &c.key.1 {
            // `<deps>/ns/name/1.2.wasm` and `.wat` for version 1.2.3: must never be picked up
            if let Some((stem, _)) = v.rsplit_once('.') {
                let d = p.parent().unwrap().join(stem);
                std::fs::write(with_ext(&d, "wasm"), wat::parse_str(COMPONENT_DECOY).unwrap()).unwrap();
                std::fs::write(with_ext(&d, "wat"), COMPONENT_DECOY).unwrap();
            }
        } else {
            // for unversioned keys: a file named like the package with the extension *replacing* a dotted suffix cannot exist; use a sibling
            let d = p.parent().unwrap().join(format!("{}-decoy", p.file_name().unwrap().to_str().unwrap()));
            std::fs::write(with_ext(&d, "wasm"), wat::parse_str(COMPONENT_DECOY).unwrap()).unwrap();
        }
    }
    let mut overrides = HashMap::new();
    let odir = scratch.join("over");
    std::fs::create_dir_all(&odir).unwrap();
    match c.over {
        Override::None => {}
        Override::WasmFile => {
            let f = odir.join("o.wasm");
            std::fs::write(&f, wat::parse_str(COMPONENT_OVERRIDE).unwrap()).unwrap();
            overrides.insert(c.key.0.clone(), f);
        }
        Override::WatFile => {
            let f = odir.join("o.wat");
            std::fs::write(&f, COMPONENT_OVERRIDE).unwrap();
            overrides.insert(c.key.0.clone(), f);
        }
        Override::WitFile => {
            let f = odir.join("o.wit");
            std::fs::write(&f, WIT_TEXT).unwrap();
            overrides.insert(c.key.0.clone(), f);
        }
        Override::Dangling => {
            overrides.insert(c.key.0.clone(), odir.join("does-not-exist.wasm"));
        }
        Override::Unrelated => {
            let f = odir.join("o.wasm");
            std::fs::write(&f, wat::parse_str(COMPONENT_OVERRIDE).unwrap()).unwrap();
            overrides.insert("other:pkg".to_string(), f);
        }
    }
    Tree { root, overrides }
}

/// The decision table (Appendix D).
fn expected(c: &Case, t: &Tree) -> Expected {
    let unknown = || if c.strict { Expected::Unknown } else { Expected::Skipped };
    let applies = c.key.1.is_none() && !matches!(c.over, Override::None | Override::Unrelated);
    if applies {
        let path = &t.overrides[&c.key.0];
        return match c.over {
            Override::Dangling => Expected::Failure,
            Override::WasmFile => Expected::Bytes(wat::parse_str(COMPONENT_OVERRIDE).unwrap()),
            Override::WatFile => {
                if c.wat_feature {
                    Expected::Bytes(wat::parse_str(COMPONENT_OVERRIDE).unwrap())
                } else {
                    // without text support the file's bytes are returned as they are
                    Expected::Bytes(COMPONENT_OVERRIDE.as_bytes().to_vec())
                }
            }
            Override::WitFile => match wit_file_bytes(path) {
                Ok(b) => Expected::Bytes(b),
                Err(_) => Expected::Failure,
            },
            _ => unreachable!(),
        };
    }
    let p = base_path(&t.root, &c.key);
    match c.at_p {
        AtP::WitDir => return Expected::Bytes(wit_dir_bytes(&p).expect("reference encodes the WIT dir")),
        AtP::BadWitDir => return Expected::Failure,
        _ => {}
    }
    if c.wat_feature {
        match c.wat {
            Wat::Text => return Expected::Bytes(wat::parse_str(COMPONENT_WAT).unwrap()),
            Wat::Binary => return Expected::Bytes(wat::parse_str(COMPONENT_BINARY_IN_WAT).unwrap()),
            Wat::BadText => return Expected::Failure,
            Wat::Absent => {}
        }
    }
    match c.wasm {
        Wasm::Component => Expected::Bytes(wat::parse_str(COMPONENT_WASM).unwrap()),
        Wasm::Garbage => Expected::Bytes(b"garbage, not wasm".to_vec()),
        Wasm::Absent => unknown(),
    }
}

fn actual(c: &Case, t: &Tree) -> Result<Expected, String> {
    let ver = c.key.1.as_ref().map(|v| semver::Version::parse(v).unwrap());
    if c.wat_feature {
        let mut keys = IndexMap::new();
        // in skip mode a package that does not exist is requested first and another one last: neither may
        // change what the key under test resolves to
        if !c.strict {
            keys.insert(wac_types::BorrowedPackageKey::from_name_and_version("zz:missing-first", None), miette::SourceSpan::new(0.into(), 0));
        }
        let real = wac_types::BorrowedPackageKey::from_name_and_version(&c.key.0, ver.as_ref());
        keys.insert(real, miette::SourceSpan::new(0.into(), 0));
        if !c.strict {
            keys.insert(wac_types::BorrowedPackageKey::from_name_and_version("zz:missing-last", None), miette::SourceSpan::new(0.into(), 0));
        }
        let resolver = wac_resolver::FileSystemPackageResolver::new(&t.root, t.overrides.clone(), c.strict);
        match guarded(|| resolver.resolve(&keys)) {
            Err(p) => Err(format!("panic: {p}")),
            Ok(Ok(m)) => {
                if m.keys().any(|k| k.name.starts_with("zz:")) {
                    return Err("a package that does not exist was resolved".into());
                }
                Ok(match m.get(&real) {
                    Some(b) => Expected::Bytes(b.clone()),
                    None => Expected::Skipped,
                })
            }
            Ok(Err(wac_resolver::Error::UnknownPackage { .. })) => Ok(Expected::Unknown),
            Ok(Err(wac_resolver::Error::PackageResolutionFailure { .. })) => Ok(Expected::Failure),
            Ok(Err(e)) => Err(format!("unexpected error variant: {e}")),
        }
    } else {
        let exe = std::env::current_exe().map_err(|e| e.to_string())?.parent().unwrap().join("fs_nowat");
        let input = json!({"overrides": t.overrides.iter().map(|(k, v)| (k.clone(), v.display().to_string())).collect::<HashMap<_, _>>(), "keys": [[c.key.0, c.key.1]]}).to_string();
        use std::io::Write;
        let mut child = std::process::Command::new(exe)
            .arg(&t.root)
            .arg(if c.strict { "true" } else { "false" })
            .stdin(std::process::Stdio::piped())
            .stdout(std::process::Stdio::piped())
            .stderr(std::process::Stdio::piped())
            .spawn()
            .map_err(|e| format!("cannot spawn fs_nowat: {e}"))?;
        child.stdin.take().unwrap().write_all(input.as_bytes()).map_err(|e| e.to_string())?;
        let out = child.wait_with_output().map_err(|e| e.to_string())?;
        if !out.status.success() {
            return Err(format!("fs_nowat exited with {:?}: {}", out.status, String::from_utf8_lossy(&out.stderr)));
        }
        let v: serde_json::Value = serde_json::from_slice(&out.stdout).map_err(|e| e.to_string())?;
        if let Some(err) = v.get("err").and_then(|e| e.as_str()) {
            return Ok(if err.starts_with("UnknownPackage") {
                Expected::Unknown
            } else if err.starts_with("PackageResolutionFailure") {
                Expected::Failure
            } else {
                return Err(format!("unexpected error: {err}"));
            });
        }
        let ok = v["ok"].as_array().ok_or("bad output")?;
        Ok(match ok.first() {
            Some(e) => Expected::Bytes(hex::decode(e[1].as_str().unwrap()).unwrap()),
            None => Expected::Skipped,
        })
    }
}

fn describe(e: &Expected) -> String {
    match e {
        Expected::Bytes(b) => {
            let known = [
                (COMPONENT_WASM, "the .wasm file's bytes"),
                (COMPONENT_WAT, "the assembled .wat text"),
                (COMPONENT_OVERRIDE, "the override's bytes"),
                (COMPONENT_DECOY, "the DECOY file"),
                (COMPONENT_BINARY_IN_WAT, "the binary stored in the .wat file"),
            ];
            for (w, name) in known {
                if b == &wat::parse_str(w).unwrap() {
                    return format!("Ok({name})");
                }
            }
            if b == b"garbage, not wasm" {
                return "Ok(the garbage .wasm file's bytes)".into();
            }
            if b == COMPONENT_OVERRIDE.as_bytes() {
                return "Ok(the override .wat file's raw text)".into();
            }
            format!("Ok({} bytes, sha {})", b.len(), &sha_hex(b)[..12])
        }
        Expected::Skipped => "Ok(key omitted)".into(),
        Expected::Unknown => "Err(UnknownPackage)".into(),
        Expected::Failure => "Err(PackageResolutionFailure)".into(),
    }
}

fn check(c: &Case) -> Outcome {
    static N: std::sync::atomic::AtomicU64 = std::sync::atomic::AtomicU64::new(0);
    let n = N.fetch_add(1, std::sync::atomic::Ordering::Relaxed);
    let scratch = PathBuf::from("/verif/harness/target/tmp").join(format!("c18-{}-{n}", std::process::id()));
    let _ = std::fs::remove_dir_all(&scratch);
    std::fs::create_dir_all(&scratch).unwrap();
    let t = materialise(c, &scratch);
    let want = expected(c, &t);
    let got = actual(c, &t);
    let _ = std::fs::remove_dir_all(&scratch);
    let candidates = [c.at_p != AtP::Absent, c.wasm != Wasm::Absent, c.wat != Wat::Absent, !matches!(c.over, Override::None | Override::Unrelated)].iter().filter(|b| **b).count();
    let dotted = c.key.1.is_some();
    let mut o = Outcome::pass().nontrivial(candidates >= 2 || dotted).comparisons(1).label(if c.wat_feature { "wat-feature-on" } else { "wat-feature-off" });
    if candidates >= 2 {
        o = o.label("precedence-matters");
    }
    if dotted {
        o = o.label("versioned-key");
    }
    match got {
        Err(e) => o.with_verdict(Verdict::GenInvalid(e)),
        Ok(got) if got == want => o,
        Ok(got) => {
            let sig = match (&want, &got) {
                (Expected::Bytes(_), Expected::Bytes(_)) => "C18/wrong-file-selected",
                (Expected::Bytes(_), _) => "C18/existing-package-not-found",
                (_, Expected::Bytes(_)) => "C18/unexpected-package-returned",
                _ => "C18/wrong-error-mode",
            };
            o.with_verdict(Verdict::Fail { sig: sig.into(), msg: format!("key {}{}: resolver returned {}, the documented layout gives {}\ncase: {c:?}", c.key.0, c.key.1.as_ref().map(|v| format!("@{v}")).unwrap_or_default(), describe(&got), describe(&want)) })
        }
    }
}

pub fn run(tier: Tier, seed: u64, replay: Option<&std::path::Path>) -> i32 {
    let mut run = Run::new(
        "C18",
        tier,
        seed,
        "exploration",
        "exhaustive decision table: {absent, WIT dir, broken WIT dir, plain file} at <deps>/ns/name[/version] x .wasm {absent, component, garbage} x .wat {absent, text, bad text, binary} x override {none, .wasm, .wat, .wit, dangling, for another package} x key shapes (2-3 name segments; versions with pre-release/build parts) x error_on_unknown x build with/without the `wat` feature (helper binary) x decoy files named with the version's last component replaced by the extension. Trees are materialised under harness/target/tmp; expected result from the documented layout (Appendix D), expected bytes from the file itself, the `wat` crate, or wit-component. Non-trivial = >= 2 candidates exist (precedence matters) or the key has a dotted version. Distinct by JSON hash.",
    );
    run.exhaustive = Some(true);
    run.assume("reference encodings come from the `wat`, `wit-parser` and `wit-component` crates used directly");
    if let Some(p) = replay {
        run.replay_case::<Case, _>(p, check);
        return run.finish();
    }
    let keys: Vec<(String, Option<String>)> = vec![
        ("a:b".into(), None),
        ("a:b:c".into(), None),
        ("a:b".into(), Some("1.2.3".into())),
        ("a:b".into(), Some("1.0.0-rc.1+build.5".into())),
        ("ns:pkg-name".into(), Some("0.2.0".into())),
    ];
    let mut cases = vec![];
    for key in &keys {
        for at_p in [AtP::Absent, AtP::WitDir, AtP::BadWitDir, AtP::PlainFile] {
            for wasm in [Wasm::Absent, Wasm::Component, Wasm::Garbage] {
                for wat in [Wat::Absent, Wat::Text, Wat::BadText, Wat::Binary] {
                    for over in [Override::None, Override::WasmFile, Override::WatFile, Override::WitFile, Override::Dangling, Override::Unrelated] {
                        for strict in [true, false] {
                            for wat_feature in [true, false] {
                                for decoy in [false, true] {
                                    // quick tier: thin out the least informative dimension combinations
                                    if tier == Tier::Quick && decoy && over != Override::None {
                                        continue;
                                    }
                                    if tier == Tier::Quick && !wat_feature && matches!(over, Override::WitFile | Override::Unrelated) {
                                        continue;
                                    }
                                    cases.push(Case { key: key.clone(), at_p, wasm, wat, over, strict, wat_feature, decoy });
                                }
                            }
                        }
                    }
                }
            }
        }
    }
    run.set_extra("table_rows", json!(cases.len()));
    run.enumerate(&cases, check);
    run.floor("wat-feature-off", 100);
    run.floor("precedence-matters", 100);
    run.finish()
}
