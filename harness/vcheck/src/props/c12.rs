//! C12 — the parser accepts exactly the documented grammar and builds the intended tree.
//!
//! Two halves:
//!  (a) documents derived from the EBNF by our own AST model must be accepted and their tree must be
//!      the derivation (oracle = the generator's own model);
//!  (b) every single-token deletion, duplication, substitution and adjacent swap of such documents,
//!      plus raw insertions (forbidden code points, quotes, comment openers, stray separators), are
//!      decided by the reference tokenizer+recogniser O-gram; wac must agree on membership, on the
//!      tree when both accept, and must locate its error inside the source when both reject.

use crate::engine::*;
use crate::gen::wacsyn::*;
use crate::oracle::gram::{self, Dialect};
use crate::wacutil::*;
use proptest::prelude::*;
use serde::{Deserialize, Serialize};
use serde_json::json;
use std::sync::atomic::{AtomicU64, Ordering};

static MUTANTS: AtomicU64 = AtomicU64::new(0);
static MUTANTS_REJECTED: AtomicU64 = AtomicU64::new(0);
static MUTANTS_ACCEPTED: AtomicU64 = AtomicU64::new(0);
static MUTANTS_TOLERATED: AtomicU64 = AtomicU64::new(0);

fn check_valid(c: &SynCase) -> Outcome {
    let toks = c.toks();
    let text = render(&toks, &c.layout);
    let kinds: std::collections::BTreeSet<&str> = c.doc.stmts.iter().map(|s| s.kind()).collect();
    let mut o = Outcome::pass().nontrivial(kinds.len() >= 3).rendered(json!({"text": text}));
    for k in &kinds {
        o = o.label(format!("stmt-{k}"));
    }
    match parse_tree(&text) {
        Err(e) => o.with_verdict(Verdict::Fail {
            sig: format!("C12/derivable-document-rejected:{}", e.variant),
            msg: format!("document derived from the grammar was rejected: {} at {}+{}\n{text}", e.message, e.offset, e.len),
        }),
        Ok(tree) => {
            let got = normalize(&tree);
            let want = c.doc.json();
            if let Some(path) = first_diff(&want, &got) {
                return o.with_verdict(Verdict::Fail {
                    sig: format!("C12/tree-mismatch:{}", generic_path(&path)),
                    msg: format!(
                        "tree differs from the derivation at {path}: expected {} got {}\n{text}",
                        at_path(&want, &path).cloned().unwrap_or_default(),
                        at_path(&got, &path).cloned().unwrap_or_default()
                    ),
                });
            }
            // the reference recogniser must agree with the generator on its own documents
            match gram::recognise(&text, &Dialect::DOCUMENTED) {
                Ok(t) if t == want => o.comparisons(2),
                Ok(_) => o.with_verdict(Verdict::GenInvalid("reference recogniser builds a different tree than the generator".into())),
                Err(r) => o.with_verdict(Verdict::GenInvalid(format!("reference recogniser rejects a derived document: {} at {}", r.why, r.at))),
            }
        }
    }
}

/// Compare wac with the reference on one arbitrary text.  `None` = agreement.
pub fn decide(text: &str) -> (Option<(String, String)>, bool, Option<&'static str>) {
    let wac = parse_tree(text);
    let reference = gram::recognise(text, &Dialect::DOCUMENTED);
    let ref_accepts = reference.is_ok();
    match (&wac, &reference) {
        (Ok(w), Ok(r)) => {
            let got = normalize(w);
            match first_diff(r, &got) {
                None => (None, ref_accepts, None),
                Some(path) => (
                    Some((
                        format!("C12/tree-mismatch:{}", generic_path(&path)),
                        format!("both accept, trees differ at {path}: reference {} wac {}", at_path(r, &path).cloned().unwrap_or_default(), at_path(&got, &path).cloned().unwrap_or_default()),
                    )),
                    ref_accepts,
                    None,
                ),
            }
        }
        (Err(e), Err(_)) => {
            // located inside the source, on character boundaries
            let end = e.offset + e.len;
            let ok = end <= text.len() && text.is_char_boundary(e.offset) && text.is_char_boundary(end) && (e.len > 0 || text.is_empty());
            if ok {
                (None, ref_accepts, None)
            } else {
                let sig = if e.offset + e.len > text.len() { "C12/error-span-outside-source" } else { "C12/error-span-not-on-char-boundary" };
                (Some((sig.to_string(), format!("rejected with `{}` but span {}+{} is not inside the {}-byte source on char boundaries", e.message, e.offset, e.len, text.len()))), ref_accepts, None)
            }
        }
        _ => {
            let wac_accepts = wac.is_ok();
            // attribute to a named deviation of the pinned parser from the EBNF
            let all = Dialect::all();
            let matches = |d: &Dialect| -> bool {
                match (gram::recognise(text, d), &wac) {
                    (Ok(r), Ok(w)) => first_diff(&r, &normalize(w)).is_none(),
                    (Err(_), Err(_)) => true,
                    _ => false,
                }
            };
            if matches(&all) {
                let mut needed = vec![];
                for i in 0..Dialect::NAMES.len() {
                    let mut d = all;
                    d.set(i, false);
                    if !matches(&d) {
                        needed.push(Dialect::NAMES[i]);
                    }
                }
                if needed.is_empty() {
                    for i in 0..Dialect::NAMES.len() {
                        let mut d = Dialect::DOCUMENTED;
                        d.set(i, true);
                        if matches(&d) {
                            needed.push(Dialect::NAMES[i]);
                            break;
                        }
                    }
                }
                if let Some(first) = needed.first() {
                    return (
                        Some((
                            format!("C12/deviation:{first}"),
                            format!(
                                "wac {} but the documented grammar {}; explained by parser deviation(s) {:?}",
                                if wac_accepts { "accepts" } else { "rejects" },
                                if ref_accepts { "derives it" } else { "does not derive it" },
                                needed
                            ),
                        )),
                        ref_accepts,
                        None,
                    );
                }
            }
            // The pinned lexer's treatment of stray `-`/`:` inside names is irregular (logos state
            // merging: `h:a-:a` is three tokens, `h:a-a-:a` and `a:a-foo::a-a` one package name), so
            // it is attributed by the exact input shape rather than modelled: wac's own lexer
            // produced a name token that is not a well-formed token of the documented lexical
            // grammar, or an identifier token whose text is a keyword.
            if wac_accepts {
                let (malformed, kw_ident) = lexer_anomalies(text);
                if let Some(tok) = malformed {
                    return (
                        Some((
                            "C12/deviation:lexer-swallows-dangling-separator".to_string(),
                            format!("wac accepts a text in which its lexer produced the malformed name token {tok:?}"),
                        )),
                        ref_accepts,
                        None,
                    );
                }
                if let Some(tok) = kw_ident {
                    return (
                        Some((
                            "C12/deviation:keyword-before-colon-lexes-as-identifier".to_string(),
                            format!("wac accepts a text in which its lexer produced an identifier token for the keyword {tok:?}"),
                        )),
                        ref_accepts,
                        None,
                    );
                }
            }
            let detail = match (&wac, &reference) {
                (Ok(_), Err(r)) => format!("wac accepts; reference rejects: {} at byte {}", r.why, r.at),
                (Err(e), Ok(_)) => format!("reference derives it; wac rejects: {} at {}+{}", e.message, e.offset, e.len),
                _ => unreachable!(),
            };
            (Some((format!("C12/acceptance-mismatch:{}", if wac_accepts { "wac-accepts" } else { "wac-rejects" }), detail)), ref_accepts, None)
        }
    }
}

/// Name tokens produced by wac's lexer that the documented lexical grammar does not have:
/// (first malformed name token, first identifier token whose text is a keyword).
fn lexer_anomalies(text: &str) -> (Option<String>, Option<String>) {
    use wac_parser::lexer::{Lexer, Token};
    let mut malformed = None;
    let mut kw = None;
    let Ok(lexer) = Lexer::new(text) else { return (None, None) };
    for (tok, span) in lexer {
        let Ok(tok) = tok else { continue };
        let want = match tok {
            Token::Ident => gram::Kind::Ident,
            Token::PackageName => gram::Kind::PkgName,
            Token::PackagePath => gram::Kind::PkgPath,
            _ => continue,
        };
        let t = &text[span.offset()..span.offset() + span.len()];
        match gram::tokenize(t, &Dialect::DOCUMENTED) {
            Ok(toks) if toks.len() == 1 && toks[0].kind == want => {}
            Ok(toks) if toks.len() == 1 && toks[0].kind == gram::Kind::Kw && want == gram::Kind::Ident => {
                if kw.is_none() {
                    kw = Some(t.to_string());
                }
            }
            _ => {
                if malformed.is_none() {
                    malformed = Some(t.to_string());
                }
            }
        }
    }
    (malformed, kw)
}

const SUBST_POOL: &[(&str, TokClass)] = &[
    ("...", TokClass::Sym),
    (";", TokClass::Sym),
    (",", TokClass::Sym),
    (":", TokClass::Sym),
    ("{", TokClass::Sym),
    ("}", TokClass::Sym),
    (".", TokClass::Sym),
    ("_", TokClass::Sym),
    ("->", TokClass::Sym),
    ("as", TokClass::Keyword),
    ("func", TokClass::Keyword),
    ("new", TokClass::Keyword),
    ("u8", TokClass::Keyword),
    ("static", TokClass::Keyword),
    ("zz", TokClass::Ident),
    ("\"s\"", TokClass::Str),
    ("p:q", TokClass::PkgName),
    ("p:q/r@1.0.0", TokClass::PkgPath),
];

#[derive(Clone, Debug, Serialize, Deserialize)]
pub struct MutCase {
    pub base: SynCase,
}

fn mutants_of(toks: &[Tok]) -> Vec<(String, Vec<Tok>)> {
    let mut out = vec![];
    for i in 0..toks.len() {
        let mut d = toks.to_vec();
        d.remove(i);
        out.push((format!("delete@{i}"), d));
        let mut d = toks.to_vec();
        d.insert(i, toks[i].clone());
        out.push((format!("duplicate@{i}"), d));
        if i + 1 < toks.len() {
            let mut d = toks.to_vec();
            d.swap(i, i + 1);
            out.push((format!("swap@{i}"), d));
        }
        for (j, (text, class)) in SUBST_POOL.iter().enumerate() {
            if toks[i].text == *text {
                continue;
            }
            // keep it to a fixed sub-sample of the pool per position to bound the work
            if (i + j) % 3 != 0 {
                continue;
            }
            let mut d = toks.to_vec();
            d[i] = Tok { text: text.to_string(), class: class.clone() };
            out.push((format!("subst@{i}:{text}"), d));
        }
    }
    out
}

fn check_mutants(c: &MutCase) -> Outcome {
    let toks = c.base.toks();
    let mut boundary = 0u64;
    let mut n = 0u64;
    let mut kinds = std::collections::BTreeSet::new();
    for (name, m) in mutants_of(&toks) {
        let text = render(&m, &c.base.layout);
        n += 1;
        let (disagreement, ref_accepts, _) = decide(&text);
        MUTANTS.fetch_add(1, Ordering::Relaxed);
        if ref_accepts {
            MUTANTS_ACCEPTED.fetch_add(1, Ordering::Relaxed);
        } else {
            MUTANTS_REJECTED.fetch_add(1, Ordering::Relaxed);
            boundary += 1;
        }
        kinds.insert(name.split('@').next().unwrap().to_string());
        if let Some((sig, msg)) = disagreement {
            return Outcome::fail(sig, format!("mutation {name}: {msg}\n--- text ---\n{text}")).rendered(json!({"mutation": name, "text": text}));
        }
    }
    let mut o = Outcome::pass().comparisons(n).nontrivial(boundary > 0).rendered(json!({"text": render(&toks, &c.base.layout), "mutants": n, "rejected_by_reference": boundary}));
    for k in kinds {
        o = o.label(format!("mut-{k}"));
    }
    o
}

#[derive(Clone, Debug, Serialize, Deserialize)]
pub struct RawCase {
    pub base: SynCase,
    pub insert: String,
    pub pos: u16,
}

const FORBIDDEN: &[char] = &[
    '\u{202a}', '\u{202b}', '\u{202c}', '\u{202d}', '\u{202e}', '\u{2066}', '\u{2067}', '\u{2068}', '\u{2069}', '\u{149}', '\u{673}', '\u{f77}', '\u{f79}', '\u{17a3}', '\u{17a4}', '\u{17b4}',
    '\u{17b5}', '\u{0}', '\u{1}', '\u{7}', '\u{8}', '\u{b}', '\u{c}', '\u{1b}', '\u{7f}', '\u{85}', '\u{9f}',
];

const RAW_INSERTS: &[&str] = &[
    "\"", "/*", "*/", "//", "%", "-", "@", "@1.0.0", "@1.0", ":", "_", "/", "...", ".", " ", "\n", ";", ",", "(", ")", "<", ">", "1", "A", "a", "\u{e9}", "\u{2603}", "->", "=", "[", "]", "-x", ":x", "/x", "%%",
    "@01.0.0", "@1.0.0-rc.1", "@1.0.0+b", "@1..0",
];

fn raw_text(c: &RawCase) -> String {
    let base = c.base.text();
    let mut pos = (c.pos as usize * (base.len() + 1)) >> 16;
    while !base.is_char_boundary(pos) {
        pos -= 1;
    }
    format!("{}{}{}", &base[..pos], c.insert, &base[pos..])
}

fn check_raw(c: &RawCase) -> Outcome {
    let text = raw_text(c);
    let forbidden = c.insert.chars().any(gram::forbidden_code_point);
    let (disagreement, ref_accepts, _) = decide(&text);
    let mut o = Outcome::pass().nontrivial(!ref_accepts).comparisons(1).rendered(json!({"text": text}));
    o = o.label(if forbidden { "raw-forbidden-code-point" } else { "raw-insert" });
    o = o.label(if ref_accepts { "raw-accepted" } else { "raw-rejected" });
    if forbidden && ref_accepts {
        return o.with_verdict(Verdict::GenInvalid("reference accepted a forbidden code point".into()));
    }
    match disagreement {
        None => o,
        Some((sig, msg)) => o.with_verdict(Verdict::Fail { sig, msg: format!("insert {:?}: {msg}\n--- text ---\n{text}", c.insert) }),
    }
}

#[derive(Clone, Debug, Serialize, Deserialize)]
pub struct TextCase {
    pub text: String,
}

fn check_text(c: &TextCase) -> Outcome {
    let (disagreement, ref_accepts, _) = decide(&c.text);
    let o = Outcome::pass().nontrivial(!ref_accepts).comparisons(1).label(if ref_accepts { "handwritten-accepted" } else { "handwritten-rejected" });
    match disagreement {
        None => o,
        Some((sig, msg)) => o.with_verdict(Verdict::Fail { sig, msg: format!("{msg}\n--- text ---\n{}", c.text) }),
    }
}

/// Near-miss forms listed in the statement / DESIGN.md, checked on every run.
fn handwritten() -> Vec<TextCase> {
    let p = "package a:b;\n";
    let bodies = [
        "let x = y", "let x = y;;", "let x y;", "let = y;", "let let = y;", "let %let = y;", "let x = new c:d { ... };", "let x = new c:d { ..., };", "let x = new c:d { ...\n y };",
        "let x = new c:d { ...y, ... };", "let x = new c:d { a, ...\n};", "let x = new c:d {};", "let x = new c:d { a b };", "let x = new c:d { a,, b };", "let x = new c:d { \"s\" };",
        "let x = new c:d { \"s\": y };", "export x as;", "export x... as y;", "export x as y...;", "export x.y[\"z\"].w;", "export x[y];", "export x.\"y\";", "import x: func();",
        "import x: func() -> ;", "import x: func() -> (a: u8);", "import x: func() -> (a: u8, b: u8,);", "import x: func(a: u8,) -> u8;", "import x: func(a: u8,,) -> u8;",
        "import x: func(a:u8);", "import x: func(a :u8);", "import x as \"y\": c:d/e;", "import x as: c:d/e;", "import x: c:d;", "import x: c:d/e@1.0;", "import x: c:d/e@1.0.0;",
        "import x: c:d/e@1.0.0-rc.1+b.2;", "import x: c:d/e@01.0.0;", "record r {}", "record r { a: u8 }", "record r { a: u8, }", "record r { a: u8,, }", "variant v {}", "variant v { a(u8), b }",
        "enum e {}", "enum e { a, }", "flags f {}", "flags f { a b }", "type t = tuple<>;", "type t = tuple<u8,>;", "type t = list<>;", "type t = result;", "type t = result<u8>;",
        "type t = result<_, u8>;", "type t = result<u8, u8>;", "type t = result<_>;", "type t = result<_, _>;", "type t = result<u8, _>;", "type t = borrow<r>;", "type t = borrow<u8>;",
        "type t = option<option<u8>>;", "type t = func;", "type t = func() -> u8", "interface i { use a.{}; }", "interface i { use a.{b as c,}; }", "interface i { use a:b/c.{d}; }",
        "interface i { use a:b/c@1.0.0.{d}; }", "interface i { resource r; }", "interface i { resource r {} }", "interface i { resource r { constructor(); m: static func(); n: func(); } }",
        "interface i { resource r { constructor() } }", "interface i { f: func() }", "interface i { f: g; }", "world w { include x with {}; }", "world w { include x with { a as b, }; }",
        "world w { include a:b/c; import d: func(); export e: interface { }; import f; export g:h/i; }", "world w { import a:b; }", "resource r;", "let foo- = y;", "let foo-bar = y;",
        "let %foo- = y;", "import x: a:b:/c;", "let x = new a:b- {};", "let FOO = y;", "let Foo = y;", "let fOO = y;", "let x = \"unterminated;", "let x = y; /* unterminated",
        "let x = y; /* nested /* ok */ */", "let x = y; // trailing", "let x = y; /**/", "let x\u{202e} = y;", "let x = y; // \u{202e}", "let x = y; /* \u{7} */", "let x = new c:d { \"\u{1b}\": y };",
        "let x = y;\u{c}", "let x = y;\r\n\t", "let x = (y);", "let x = ((y)).z;", "let x = ();", "let x = (y;", "let x = new c:d@1.0.0 { };", "let x = new c:d@1.0 { };", "let x = new c:d/e { };",
    ];
    let mut out: Vec<TextCase> = bodies.iter().map(|b| TextCase { text: format!("{p}{b}\n") }).collect();
    for t in ["", " ", "package", "package a;", "package a:b", "package a:b;", "package a:b targets c:d/e;", "package a:b targets c:d;", "package a:b@1.0.0;", "package a:b@1.0;", "package a:b:c;", "package %a:%b;", "let x = y;", "package a:b; package c:d;", "// only a comment", "package a:b; //\u{2603}", "package a:b; let x = y //\u{2603}"] {
        out.push(TextCase { text: t.to_string() });
    }
    out
}

pub fn run(tier: Tier, seed: u64, replay: Option<&std::path::Path>) -> i32 {
    let mut run = Run::new(
        "C12",
        tier,
        seed,
        "exploration",
        "documents derived from LANGUAGE.md's EBNF by our own AST model (<= 6 statements, depth <= 3) rendered with random layout (whitespace, line/nested block/doc comments, %-escapes, optional trailing commas): expected tree = the derivation. For a sub-sample of them ALL single-token deletions, duplications, adjacent swaps and a fixed third of an 18-token substitution pool per position, plus random raw insertions (27 forbidden code points, quotes, comment openers, stray separators, malformed versions) and a fixed list of hand-written near-miss forms: membership decided by the reference tokenizer+recogniser written from the EBNF; both accept => equal trees; both reject => error span inside the source on char boundaries. Non-trivial (valid docs) = >= 3 statement kinds; non-trivial (mutation cases) = at least one mutant the reference rejects. Distinct by JSON hash.",
    );
    run.assume("tolerances T1 (`...` in any argument position: the resolver rejects it), T2 (empty / lone-`...` argument lists), upper-case words as in the lexer's pinned `ident` test");
    run.assume("version validity delegated to the `semver` crate");
    if let Some(p) = replay {
        let text = std::fs::read_to_string(p).unwrap_or_default();
        if text.contains("\"insert\"") {
            run.replay_case::<RawCase, _>(p, check_raw);
        } else if text.contains("\"base\"") {
            run.replay_case::<MutCase, _>(p, check_mutants);
        } else if text.contains("\"doc\"") {
            run.replay_case::<SynCase, _>(p, check_valid);
        } else {
            run.replay_case::<TextCase, _>(p, check_text);
        }
        return run.finish();
    }
    run.enumerate(&handwritten(), check_text);
    let cases = tier.pick(40_000, 400_000);
    run.explore(1, 16, cases / 16, || syncase_strategy(6), check_valid);
    let mcases = tier.pick(1_600, 24_000);
    run.explore(2, 16, mcases / 16, || syncase_strategy(3).prop_map(|base| MutCase { base }), check_mutants);
    let rcases = tier.pick(40_000, 400_000);
    let raw = || {
        (
            syncase_strategy(3),
            prop_oneof![
                proptest::sample::select(FORBIDDEN).prop_map(|c| c.to_string()),
                proptest::sample::select(RAW_INSERTS).prop_map(|s| s.to_string()),
            ],
            any::<u16>(),
        )
            .prop_map(|(base, insert, pos)| RawCase { base, insert, pos })
    };
    run.explore(3, 16, rcases / 16, raw, check_raw);
    run.set_extra("mutants_total", json!(MUTANTS.load(Ordering::Relaxed)));
    run.set_extra("mutants_rejected_by_reference", json!(MUTANTS_REJECTED.load(Ordering::Relaxed)));
    run.set_extra("mutants_accepted_by_reference", json!(MUTANTS_ACCEPTED.load(Ordering::Relaxed)));
    let _ = &MUTANTS_TOLERATED;
    run.floor("mut-delete", 50);
    run.floor("mut-swap", 50);
    run.floor("raw-forbidden-code-point", 100);
    run.finish()
}
