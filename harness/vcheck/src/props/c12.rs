//! C12 — the parser accepts exactly the documented grammar and builds the intended tree.

use crate::engine::*;
use crate::gen::wacsyn::*;
use crate::wacutil::*;
use serde_json::json;

fn check_valid(c: &SynCase) -> Outcome {
    let toks = c.toks();
    let text = render(&toks, &c.layout);
    let kinds: std::collections::BTreeSet<&str> = c.doc.stmts.iter().map(|s| s.kind()).collect();
    let mut o = Outcome::pass().nontrivial(kinds.len() >= 3).rendered(json!({"text": text}));
    for k in &kinds {
        o = o.label(format!("stmt-{k}"));
    }
    match parse_tree(&text) {
        Err(e) => o.with_verdict(Verdict::Fail {
            sig: format!("C12/derivable-document-rejected:{}", e.variant),
            msg: format!("document derived from the grammar was rejected: {} at {}+{}\n{text}", e.message, e.offset, e.len),
        }),
        Ok(tree) => {
            let got = normalize(&tree);
            let want = c.doc.json();
            match first_diff(&want, &got) {
                None => o.comparisons(1),
                Some(path) => o.with_verdict(Verdict::Fail {
                    sig: format!("C12/tree-mismatch:{}", generic_path(&path)),
                    msg: format!("tree differs from the derivation at {path}: expected {} got {}\n{text}", at_path(&want, &path).cloned().unwrap_or_default(), at_path(&got, &path).cloned().unwrap_or_default()),
                }),
            }
        }
    }
}

pub fn run(tier: Tier, seed: u64, replay: Option<&std::path::Path>) -> i32 {
    let mut run = Run::new(
        "C12",
        tier,
        seed,
        "exploration",
        "documents derived from LANGUAGE.md's EBNF by our own AST model (size <= 6 statements, depth <= 3) rendered with random layout; the expected tree is the generator's derivation. Non-trivial = uses >= 3 statement kinds. Distinct by JSON hash.",
    );
    if let Some(p) = replay {
        run.replay_case::<SynCase, _>(p, check_valid);
        return run.finish();
    }
    let cases = tier.pick(40_000, 600_000);
    run.explore(1, 16, cases / 16, || syncase_strategy(6), check_valid);
    run.finish()
}
