//! C19 — the CLI does what the library does with the flags as documented.
//!
//! The `wac` binary is built from /repo's working tree (run.sh) and run on generated inputs laid out in
//! scratch directories; every observable (exit status, stdout, stderr, output file) is compared with the
//! same pipeline executed in-process through the library.

use crate::engine::*;
use crate::oracle::wire;
use crate::props::c01::validate;
use proptest::prelude::*;
use serde::{Deserialize, Serialize};
use serde_json::json;
use std::collections::{BTreeSet, HashMap};
use std::path::{Path, PathBuf};
use std::process::Command;
use wac_graph::{CompositionGraph, EncodeOptions};
use wac_parser::Document;
use wac_types::Package;

const BIN: &str = "/verif/harness/target/wac-cli/release/wac";
const SCRATCH: &str = "/verif/harness/target/tmp/c19";

struct Ran {
    code: Option<i32>,
    stdout: Vec<u8>,
    stderr: String,
}

fn run_cli(dir: &Path, args: &[String]) -> Ran {
    let home = dir.join("home");
    let _ = std::fs::create_dir_all(&home);
    let out = Command::new(BIN).args(args).current_dir(dir).env_clear().env("HOME", &home).env("XDG_CONFIG_HOME", home.join("cfg")).env("XDG_CACHE_HOME", home.join("cache")).env("PATH", "/usr/bin:/bin").stdin(std::process::Stdio::null()).output().expect("spawn wac");
    Ran { code: out.status.code(), stdout: out.stdout, stderr: String::from_utf8_lossy(&out.stderr).to_string() }
}

fn scratch(tag: &str, json: &str) -> PathBuf {
    let d = Path::new(SCRATCH).join(format!("{tag}-{}-{:?}", &sha_hex(json.as_bytes())[..16], std::thread::current().id()).replace(['(', ')'], ""));
    let _ = std::fs::remove_dir_all(&d);
    std::fs::create_dir_all(&d).expect("scratch dir");
    d
}

type Pkgs = Vec<(String, Option<semver::Version>, Vec<u8>)>;

fn pkg_path(root: &Path, name: &str, version: Option<&semver::Version>) -> PathBuf {
    let mut p = root.to_path_buf();
    for seg in name.split(':') {
        p.push(seg);
    }
    match version {
        Some(v) => {
            p.push(format!("{v}.wasm"));
        }
        None => {
            p.set_extension("wasm");
        }
    }
    p
}

// ---------------------------------------------------------------------------------------------
// compose

#[derive(Clone, Debug, Serialize, Deserialize)]
pub enum Source {
    Program(crate::props::c04::Case),
    /// hand-made compositions: 0/1 only validation rejects them, 2 trivially fine
    Fixed(u8),
}

#[derive(Clone, Debug, Serialize, Deserialize)]
pub enum Damage {
    None,
    /// break the syntax at a position
    Syntax(u16),
    /// remove one package file
    MissingPackage(u16),
    /// move one unversioned package out of the deps dir and name it with `--dep`; a decoy stays behind
    DepOverride(u16, bool),
    /// one package file holds garbage
    Corrupt(u16),
}

#[derive(Clone, Debug, Serialize, Deserialize)]
pub struct ComposeCase {
    pub source: Source,
    pub damage: Damage,
    pub import_dependencies: bool,
    pub no_validate: bool,
    pub wat: bool,
    pub output: bool,
    pub deps_dir: bool,
}

fn fixed(k: u8) -> (String, Pkgs) {
    use crate::gen::wit::build_component;
    let api = "package lib:api;\ninterface i0 { record r { a: u8 } record q { b: r } f: func() -> q; }\ninterface i1 { use i0.{q}; g: func(x: q); }\n".to_string();
    let c = |w: &str| build_component(&[api.clone()], w).expect("fixed component");
    match k % 3 {
        0 => {
            // the socket's export mentions a type of an interface that the plug supplies: only validation objects
            let p = c("package test:p;\nworld w { export lib:api/i0; }\n");
            let s = c("package test:s;\nworld w { export lib:api/i1; }\n");
            ("package test:comp;\nlet p = new test:p { ... };\nlet s = new test:s { \"lib:api/i0\": p[\"lib:api/i0\"], ... };\nexport s[\"lib:api/i1\"];\n".into(), vec![("test:p".into(), None, p), ("test:s".into(), None, s)])
        }
        1 => {
            let p = c("package test:p;\nworld w { export lib:api/i0; }\n");
            let s = c("package test:s;\nworld w { import lib:api/i0; export lib:api/i1; }\n");
            ("package test:comp;\nlet p = new test:p { ... };\nlet s = new test:s { ...p, ... };\nexport s...;\n".into(), vec![("test:p".into(), None, p), ("test:s".into(), None, s)])
        }
        _ => {
            let s = c("package test:s;\nworld w { import lib:api/i0; export lib:api/i1; }\n");
            ("package test:comp;\nlet s = new test:s { ... };\nexport s...;\n".into(), vec![("test:s".into(), None, s)])
        }
    }
}

#[derive(Debug)]
enum LibErr {
    Parse,
    Packages(String),
    Resolve(String),
    Encode(String),
}

fn lib_compose(text: &str, deps: &Path, overrides: HashMap<String, PathBuf>, import_dependencies: bool, no_validate: bool) -> Result<Vec<u8>, LibErr> {
    let doc = Document::parse(text).map_err(|_| LibErr::Parse)?;
    let keys = wac_resolver::packages(&doc).map_err(|e| LibErr::Packages(e.to_string()))?;
    let fs = wac_resolver::FileSystemPackageResolver::new(deps, overrides, false);
    let pk = fs.resolve(&keys).map_err(|e| LibErr::Packages(e.to_string()))?;
    if let Some((k, _)) = keys.iter().find(|(k, _)| !pk.contains_key(*k)) {
        // the CLI would now ask a registry; none is configured in the scratch HOME
        return Err(LibErr::Packages(format!("unknown package {k}")));
    }
    let res = doc.resolve(pk).map_err(|e| LibErr::Resolve(e.to_string()))?;
    res.encode(EncodeOptions { define_components: !import_dependencies, validate: !no_validate, processor: None }).map_err(|e| LibErr::Encode(format!("{e:#}")))
}

fn wire_summary(b: &[u8]) -> Result<String, String> {
    let w = wire::decode(b)?;
    let mut insts: Vec<String> = w.instantiations().iter().map(|(_, c, args)| format!("{c}:{:?}", args.iter().map(|a| (&a.0, a.1)).collect::<Vec<_>>())).collect();
    insts.sort();
    Ok(format!("imports {:?} exports {:?} instantiations {insts:?} embedded {}", w.imports.iter().map(|i| &i.name).collect::<Vec<_>>(), w.exports.iter().map(|e| (&e.0, e.1)).collect::<Vec<_>>(), w.embedded_components().len()))
}

/// Compare what the CLI produced with the library's bytes, for a run that must have succeeded.
fn same_output(prefix: &str, wat: bool, to_file: bool, ran: &Ran, file: Option<Vec<u8>>, want: &[u8], must_validate: bool) -> Result<u64, (String, String)> {
    let mut n = 0;
    let got = if to_file {
        n += 1;
        if !ran.stdout.is_empty() {
            return Err((format!("{prefix}/stdout-not-empty-with-output-file"), format!("stdout has {} bytes although -o was given", ran.stdout.len())));
        }
        match file {
            Some(f) => f,
            None => return Err((format!("{prefix}/output-file-missing"), "exit status 0 but the output file was not written".into())),
        }
    } else {
        ran.stdout.clone()
    };
    n += 1;
    if !wat {
        if got != want {
            return Err((format!("{prefix}/bytes-differ"), format!("the CLI wrote {} bytes (sha {}), the library pipeline gives {} bytes (sha {}); CLI: {:?} library: {:?}", got.len(), &sha_hex(&got)[..12], want.len(), &sha_hex(want)[..12], wire_summary(&got), wire_summary(want))));
        }
        return Ok(n);
    }
    let text = String::from_utf8(got).map_err(|_| (format!("{prefix}/text-not-utf8"), "-t output is not UTF-8".to_string()))?;
    let want_text = wasmprinter::print_bytes(want).map_err(|e| (format!("{prefix}/reference-print-failed"), e.to_string()))?;
    let body = if to_file { text.as_str() } else { text.strip_suffix('\n').unwrap_or(&text) };
    n += 3;
    if body != want_text {
        return Err((format!("{prefix}/text-differs"), format!("-t output is not the text form of the library's component (first difference at byte {})", body.bytes().zip(want_text.bytes()).position(|(a, b)| a != b).unwrap_or(body.len().min(want_text.len())))));
    }
    let assembled = wat::parse_str(body).map_err(|e| (format!("{prefix}/text-does-not-assemble"), e.to_string()))?;
    if must_validate {
        validate(&assembled).map_err(|e| (format!("{prefix}/text-assembles-to-invalid"), e))?;
    }
    let (a, b) = (wire_summary(&assembled), wire_summary(want));
    if a != b {
        return Err((format!("{prefix}/text-wiring-differs"), format!("assembled text: {a:?}\nbinary: {b:?}")));
    }
    Ok(n)
}

fn check_compose(c: &ComposeCase) -> Outcome {
    let (mut text, pkgs) = match &c.source {
        Source::Program(p) => crate::props::c04::document_and_packages(p),
        Source::Fixed(k) => fixed(*k),
    };
    let js = serde_json::to_string(c).unwrap();
    let dir = scratch("compose", &js);
    let deps_name = if c.deps_dir { "elsewhere" } else { "deps" };
    let deps = dir.join(deps_name);
    let mut files: Vec<(String, Option<semver::Version>, PathBuf)> = vec![];
    for (n, v, b) in &pkgs {
        let p = pkg_path(&deps, n, v.as_ref());
        std::fs::create_dir_all(p.parent().unwrap()).unwrap();
        std::fs::write(&p, b).unwrap();
        files.push((n.clone(), v.clone(), p));
    }
    let mut labels: Vec<String> = vec![];
    let mut args: Vec<String> = vec!["compose".into()];
    let mut overrides: HashMap<String, PathBuf> = HashMap::new();
    match &c.damage {
        Damage::None => {}
        Damage::Syntax(at) => {
            let mut pos = (*at as usize * (text.len() + 1)) >> 16;
            while !text.is_char_boundary(pos) {
                pos -= 1;
            }
            text.insert_str(pos, " } ; = ");
            labels.push("damage:syntax".into());
        }
        Damage::MissingPackage(k) => {
            let (_, _, p) = &files[(*k as usize * files.len()) >> 16];
            std::fs::remove_file(p).unwrap();
            labels.push("damage:missing-package".into());
        }
        Damage::Corrupt(k) => {
            let (_, _, p) = &files[(*k as usize * files.len()) >> 16];
            std::fs::write(p, b"\0asm\x0d\0\x01\0garbage").unwrap();
            labels.push("damage:corrupt-package".into());
        }
        Damage::DepOverride(k, decoy) => {
            let unv: Vec<&(String, Option<semver::Version>, PathBuf)> = files.iter().filter(|f| f.1.is_none()).collect();
            if !unv.is_empty() {
                let (n, _, p) = unv[(*k as usize * unv.len()) >> 16];
                let alt = dir.join("alt").join("moved.wasm");
                std::fs::create_dir_all(alt.parent().unwrap()).unwrap();
                std::fs::rename(p, &alt).unwrap();
                if *decoy {
                    // what stays in the deps dir is a different (valid, empty) component: the override must win
                    std::fs::write(p, wat::parse_str("(component)").unwrap()).unwrap();
                }
                args.push("--dep".into());
                args.push(format!("{n}=alt/moved.wasm"));
                overrides.insert(n.clone(), PathBuf::from("alt/moved.wasm"));
                labels.push(if *decoy { "dep-override-with-decoy".into() } else { "dep-override".into() });
            }
        }
    }
    std::fs::write(dir.join("doc.wac"), &text).unwrap();
    if c.deps_dir {
        args.push("--deps-dir".into());
        args.push(deps_name.into());
    }
    if c.import_dependencies {
        args.push("--import-dependencies".into());
    }
    if c.no_validate {
        args.push("--no-validate".into());
    }
    if c.wat {
        args.push("-t".into());
    }
    if c.output {
        args.push("-o".into());
        args.push("out.bin".into());
    }
    args.push("doc.wac".into());
    // ---- library pipeline (relative paths resolve against the case directory, like the CLI's cwd)
    let abs_over: HashMap<String, PathBuf> = overrides.iter().map(|(k, v)| (k.clone(), dir.join(v))).collect();
    let want = guarded(|| lib_compose(&text, &deps, abs_over.clone(), c.import_dependencies, c.no_validate));
    let want = match want {
        Ok(w) => w,
        Err(p) => {
            let _ = std::fs::remove_dir_all(&dir);
            return Outcome::foreign(format!("library pipeline panicked (C14's obligation): {p}"));
        }
    };
    // what validation alone decides
    let only_validation = matches!(&want, Err(LibErr::Encode(m)) if m.contains("failed validation")) || (c.no_validate && matches!(&want, Ok(b) if validate(b).is_err()));
    let ran = run_cli(&dir, &args);
    let file = std::fs::read(dir.join("out.bin")).ok();
    let mut o = Outcome::pass().rendered(json!({"args": args, "document": text, "stderr": ran.stderr.chars().take(400).collect::<String>()}));
    for l in labels {
        o = o.label(l);
    }
    o = o.label(match &want {
        Ok(_) => "pipeline-ok",
        Err(LibErr::Parse) => "fails-at-parse",
        Err(LibErr::Packages(_)) => "fails-at-package-resolution",
        Err(LibErr::Resolve(_)) => "fails-at-resolution",
        Err(LibErr::Encode(m)) if m.contains("failed validation") => "fails-at-validation",
        Err(LibErr::Encode(_)) => "fails-at-encoding",
    });
    if only_validation {
        o = o.label("validation-decides");
    }
    let embeds = matches!(&want, Ok(b) if wire::decode(b).map(|w| !w.embedded_components().is_empty() || w.imports.iter().any(|i| i.name.starts_with("unlocked-dep="))).unwrap_or(false));
    o = o.nontrivial(only_validation || embeds || !matches!(c.damage, Damage::None));
    let verdict = (|| -> Result<u64, (String, String)> {
        let mut n = 1;
        match &want {
            Ok(bytes) => {
                if ran.code != Some(0) {
                    return Err(("C19/compose/cli-fails-library-succeeds".into(), format!("exit {:?}; stderr: {}", ran.code, ran.stderr)));
                }
                n += same_output("C19/compose", c.wat, c.output, &ran, file.clone(), bytes, !c.no_validate)?;
                // the flags mean what the documentation says, independently of the library call
                if let Ok(w) = wire::decode(bytes) {
                    n += 1;
                    let has_unlocked = w.imports.iter().any(|i| i.name.starts_with("unlocked-dep="));
                    if c.import_dependencies && !w.embedded_components().is_empty() {
                        return Err(("C19/compose/import-dependencies-but-embedded".into(), "dependencies are embedded although --import-dependencies was given".into()));
                    }
                    if !c.import_dependencies && has_unlocked {
                        return Err(("C19/compose/dependencies-imported-by-default".into(), "dependencies are imported although --import-dependencies was not given".into()));
                    }
                }
                if !c.no_validate {
                    n += 1;
                    validate(bytes).map_err(|e| ("C19/compose/validated-output-invalid".to_string(), e))?;
                }
            }
            Err(e) => {
                if ran.code == Some(0) {
                    return Err(("C19/compose/cli-succeeds-library-fails".into(), format!("the library pipeline fails with {e:?}; the CLI exits 0")));
                }
                n += 3;
                if ran.code.is_none() {
                    return Err(("C19/compose/cli-killed-by-signal".into(), ran.stderr.clone()));
                }
                if ran.stderr.trim().is_empty() {
                    return Err(("C19/compose/no-diagnostic".into(), "non-zero exit without a diagnostic on stderr".into()));
                }
                if file.is_some() {
                    return Err(("C19/compose/output-file-written-on-failure".into(), "the pipeline failed but the output file exists".into()));
                }
                if !ran.stdout.is_empty() {
                    return Err(("C19/compose/stdout-on-failure".into(), format!("the pipeline failed but stdout has {} bytes", ran.stdout.len())));
                }
            }
        }
        Ok(n)
    })();
    let _ = std::fs::remove_dir_all(&dir);
    match verdict {
        Ok(n) => o.comparisons(n),
        Err((sig, msg)) => o.with_verdict(Verdict::Fail { sig, msg }),
    }
}

// ---------------------------------------------------------------------------------------------
// plug

#[derive(Clone, Debug, Serialize, Deserialize)]
pub struct PlugCase {
    pub case: crate::props::c10::Case,
    pub wat: bool,
    pub output: bool,
    /// give two plugs the same file stem (in different directories)
    pub same_stem: bool,
}

fn check_plug(c: &PlugCase) -> Outcome {
    let (socket, plugs) = match crate::props::c10::materialise(&c.case) {
        Ok(x) => x,
        Err(e) => return Outcome::gen_invalid(e),
    };
    let js = serde_json::to_string(c).unwrap();
    let dir = scratch("plug", &js);
    std::fs::write(dir.join("socket.wasm"), &socket.bytes).unwrap();
    let mut args: Vec<String> = vec!["plug".into()];
    let mut named: Vec<(String, Vec<u8>)> = vec![];
    let mut stems: Vec<String> = vec![];
    for (k, p) in plugs.iter().enumerate() {
        let stem = if c.same_stem && k >= 1 { "p0".to_string() } else { format!("p{k}") };
        let rel = format!("d{k}/{stem}.wasm");
        std::fs::create_dir_all(dir.join(format!("d{k}"))).unwrap();
        std::fs::write(dir.join(&rel), &p.bytes).unwrap();
        args.push("--plug".into());
        args.push(rel);
        stems.push(stem);
    }
    // names as documented in the command: `plug:<stem>`, with the position among equal stems appended when a stem repeats
    for (k, p) in plugs.iter().enumerate() {
        let same: Vec<usize> = (0..plugs.len()).filter(|j| stems[*j] == stems[k]).collect();
        let name = if same.len() > 1 { format!("plug:{}{}", stems[k], same.iter().position(|j| *j == k).unwrap()) } else { format!("plug:{}", stems[k]) };
        named.push((name, p.bytes.clone()));
    }
    if c.wat {
        args.push("-t".into());
    }
    if c.output {
        args.push("-o".into());
        args.push("out.bin".into());
    }
    args.push("socket.wasm".into());
    // ---- library: plugs in command-line order; and, to attribute a difference, every other order
    let lib = |order: &[usize]| -> Result<Vec<u8>, String> {
        let mut g = CompositionGraph::new();
        let s = Package::from_bytes("socket", None, socket.bytes.clone(), g.types_mut()).map_err(|e| format!("{e:#}"))?;
        let s = g.register_package(s).map_err(|e| e.to_string())?;
        let mut ids = vec![];
        for k in order {
            let p = Package::from_bytes(&named[*k].0, None, named[*k].1.clone(), g.types_mut()).map_err(|e| format!("{e:#}"))?;
            ids.push(g.register_package(p).map_err(|e| e.to_string())?);
        }
        wac_graph::plug(&mut g, ids, s).map_err(|e| format!("{e:#}"))?;
        g.encode(EncodeOptions::default()).map_err(|e| format!("{e:#}"))
    };
    let in_order: Vec<usize> = (0..plugs.len()).collect();
    let want = match guarded(|| lib(&in_order)) {
        Ok(w) => w,
        Err(p) => {
            let _ = std::fs::remove_dir_all(&dir);
            return Outcome::foreign(format!("library pipeline panicked: {p}"));
        }
    };
    let ran = run_cli(&dir, &args);
    let file = std::fs::read(dir.join("out.bin")).ok();
    let distinct_stems = stems.iter().collect::<BTreeSet<_>>().len();
    let mut o = Outcome::pass().rendered(json!({"args": args, "stderr": ran.stderr.chars().take(400).collect::<String>()})).nontrivial(plugs.len() >= 2).label(if want.is_ok() { "plug-ok" } else { "plug-fails" });
    if plugs.len() >= 2 {
        o = o.label("several-plugs");
    }
    if c.same_stem && plugs.len() >= 2 {
        o = o.label("repeated-plug-stem");
    }
    let verdict = (|| -> Result<u64, (String, String)> {
        match &want {
            Ok(bytes) => {
                if ran.code != Some(0) {
                    return Err(("C19/plug/cli-fails-library-succeeds".into(), format!("exit {:?}; stderr: {}", ran.code, ran.stderr)));
                }
                match same_output("C19/plug", c.wat, c.output, &ran, file.clone(), bytes, true) {
                    Ok(n) => Ok(n + 1),
                    Err((sig, msg)) if sig.ends_with("bytes-differ") || sig.ends_with("text-differs") => {
                        // is it the library's result for another order of the plugs?
                        let mut perm = in_order.clone();
                        let mut other = None;
                        permutations(&mut perm, 0, &mut |p| {
                            if other.is_none() && p != in_order.as_slice() {
                                if let Ok(b) = lib(p) {
                                    let same = if c.wat { wasmprinter::print_bytes(&b).map(|t| t.into_bytes()).ok() } else { Some(b) };
                                    let got = if c.output { file.clone().unwrap_or_default() } else { ran.stdout.clone() };
                                    let got = if c.wat && !c.output { got.strip_suffix(b"\n").map(|x| x.to_vec()).unwrap_or(got) } else { got };
                                    if same.as_deref() == Some(got.as_slice()) {
                                        other = Some(p.to_vec());
                                    }
                                }
                            }
                        });
                        match other {
                            Some(p) => Err((format!("C19/plug/plugs-applied-in-another-order{}", if distinct_stems >= 2 { ":distinct-stems" } else { "" }), format!("the output equals the library's result for the plugs in order {p:?}, not in command-line order"))),
                            None => Err((sig, msg)),
                        }
                    }
                    Err(e) => Err(e),
                }
            }
            Err(e) => {
                if ran.code == Some(0) {
                    return Err(("C19/plug/cli-succeeds-library-fails".into(), format!("the library pipeline fails with {e}; the CLI exits 0")));
                }
                if ran.stderr.trim().is_empty() {
                    return Err(("C19/plug/no-diagnostic".into(), "non-zero exit without a diagnostic".into()));
                }
                if file.is_some() {
                    return Err(("C19/plug/output-file-written-on-failure".into(), "the pipeline failed but the output file exists".into()));
                }
                Ok(3)
            }
        }
    })();
    let _ = std::fs::remove_dir_all(&dir);
    match verdict {
        Ok(n) => o.comparisons(n),
        Err((sig, msg)) => o.with_verdict(Verdict::Fail { sig, msg }),
    }
}

fn permutations(v: &mut Vec<usize>, k: usize, f: &mut dyn FnMut(&[usize])) {
    if k == v.len() {
        f(v);
        return;
    }
    for i in k..v.len() {
        v.swap(k, i);
        permutations(v, k + 1, f);
        v.swap(k, i);
    }
}

/// A socket whose last export has a very long name, plugged by a component that supplies its import:
/// the tail of the output after its last newline byte is then longer than any stdout line buffer.
fn check_long_plug(len: &usize) -> Outcome {
    let long = format!("x{}", "a".repeat(*len));
    let socket = wat::parse_str(format!("(component (import \"f\" (func)) (export \"{long}\" (func 0)))")).unwrap();
    let plug = wat::parse_str("(component (core module $m (func (export \"f\"))) (core instance $i (instantiate $m)) (func $f (canon lift (core func $i \"f\"))) (export \"f\" (func $f)))").unwrap();
    let mut o = Outcome::pass().nontrivial(true).label("plug-long-export-name");
    for (wat_flag, output) in [(false, false), (false, true), (true, false)] {
        let dir = scratch("plugl", &format!("{len}-{wat_flag}-{output}"));
        std::fs::write(dir.join("socket.wasm"), &socket).unwrap();
        std::fs::write(dir.join("p.wasm"), &plug).unwrap();
        let mut args: Vec<String> = vec!["plug".into(), "--plug".into(), "p.wasm".into()];
        if wat_flag {
            args.push("-t".into());
        }
        if output {
            args.push("-o".into());
            args.push("out.bin".into());
        }
        args.push("socket.wasm".into());
        let want = (|| -> Result<Vec<u8>, String> {
            let mut g = CompositionGraph::new();
            let sp = Package::from_bytes("socket", None, socket.clone(), g.types_mut()).map_err(|e| format!("{e:#}"))?;
            let s = g.register_package(sp).map_err(|e| e.to_string())?;
            let pp = Package::from_bytes("plug:p", None, plug.clone(), g.types_mut()).map_err(|e| format!("{e:#}"))?;
            let p = g.register_package(pp).map_err(|e| e.to_string())?;
            wac_graph::plug(&mut g, vec![p], s).map_err(|e| format!("{e:#}"))?;
            g.encode(EncodeOptions::default()).map_err(|e| format!("{e:#}"))
        })();
        let ran = run_cli(&dir, &args);
        let file = std::fs::read(dir.join("out.bin")).ok();
        let _ = std::fs::remove_dir_all(&dir);
        match want {
            Err(e) => return Outcome::gen_invalid(format!("long-name plug does not compose in the library: {e}")),
            Ok(bytes) => {
                if ran.code != Some(0) {
                    return o.with_verdict(Verdict::Fail { sig: "C19/plug/cli-fails-library-succeeds".into(), msg: ran.stderr });
                }
                if let Err((sig, msg)) = same_output("C19/plug", wat_flag, output, &ran, file, &bytes, true) {
                    return o.with_verdict(Verdict::Fail { sig: format!("{sig}:long-export-name"), msg });
                }
            }
        }
        o.comparisons += 2;
    }
    o
}

// ---------------------------------------------------------------------------------------------
// parse

fn check_parse(text: &String) -> Outcome {
    let dir = scratch("parse", text);
    std::fs::write(dir.join("doc.wac"), text).unwrap();
    let want = guarded(|| Document::parse(text).ok().map(|d| serde_json::to_string_pretty(&d).unwrap() + "\n"));
    let ran = run_cli(&dir, &["parse".into(), "doc.wac".into()]);
    let _ = std::fs::remove_dir_all(&dir);
    let o = Outcome::pass().nontrivial(true).rendered(json!({"document": text}));
    let want = match want {
        Ok(w) => w,
        Err(p) => return o.with_verdict(Verdict::Foreign(format!("parse panicked (C14's obligation): {p}"))),
    };
    match want {
        Some(js) => {
            let o = o.label("parse-ok");
            if ran.code != Some(0) {
                return o.with_verdict(Verdict::Fail { sig: "C19/parse/cli-fails-library-succeeds".into(), msg: ran.stderr });
            }
            if ran.stdout != js.as_bytes() {
                return o.with_verdict(Verdict::Fail { sig: "C19/parse/json-differs".into(), msg: "stdout is not the pretty-printed serialisation of the parsed document".into() });
            }
            o.comparisons(2)
        }
        None => {
            let o = o.label("parse-fails");
            if ran.code == Some(0) {
                return o.with_verdict(Verdict::Fail { sig: "C19/parse/cli-succeeds-library-fails".into(), msg: "the document does not parse; the CLI exits 0".into() });
            }
            if ran.stderr.trim().is_empty() || !ran.stdout.is_empty() {
                return o.with_verdict(Verdict::Fail { sig: "C19/parse/diagnostic".into(), msg: format!("stderr {:?} stdout {} bytes", ran.stderr, ran.stdout.len()) });
            }
            o.comparisons(2)
        }
    }
}

// ---------------------------------------------------------------------------------------------
// targets

#[derive(Clone, Debug, Serialize, Deserialize)]
pub struct TargetsCase {
    /// world: (import?, name choice, shape)
    pub world: Vec<(bool, u8, u8)>,
    /// component = world with these changes: (kind, index)
    pub changes: Vec<(u8, u8)>,
    pub name_world: bool,
    pub second_world: bool,
    /// `--world` names a world the WIT file does not define
    #[serde(default)]
    pub wrong_world: bool,
}

const TNAMES: &[&str] = &["f", "g", "run", "api", "dep"];

fn wit_ty(shape: u8) -> &'static str {
    match shape % 4 {
        0 => "func()",
        1 => "func(x: u32)",
        2 => "interface { f: func(); }",
        _ => "interface { f: func(); g: func(); }",
    }
}

fn wat_ty(shape: u8) -> &'static str {
    match shape % 4 {
        0 => "(func)",
        1 => "(func (param \"x\" u32))",
        2 => "(instance (export \"f\" (func)))",
        _ => "(instance (export \"f\" (func)) (export \"g\" (func)))",
    }
}

fn check_targets(c: &TargetsCase) -> Outcome {
    let mut items: Vec<(bool, String, u8)> = vec![];
    for (imp, n, s) in &c.world {
        let name = TNAMES[*n as usize % TNAMES.len()].to_string();
        if !items.iter().any(|(i, m, _)| *i == *imp && *m == name) {
            items.push((*imp, name, *s % 4));
        }
    }
    let mut comp = items.clone();
    let mut labels = vec![];
    for (k, at) in &c.changes {
        match k % 4 {
            0 if !comp.is_empty() => {
                let i = *at as usize % comp.len();
                labels.push(if comp[i].0 { "drop-import" } else { "drop-export" });
                comp.remove(i);
            }
            1 => {
                comp.push((true, "extra".into(), 0));
                labels.push("extra-import");
            }
            2 if !comp.is_empty() => {
                let i = *at as usize % comp.len();
                comp[i].2 = (comp[i].2 + 1) % 4;
                labels.push("changed-type");
            }
            3 => {
                comp.push((false, "more".into(), 0));
                labels.push("extra-export");
            }
            _ => {}
        }
    }
    let mut wit = String::from("package t:w;\n");
    if c.second_world {
        wit.push_str("world other { import zz: func(); }\n");
    }
    wit.push_str("world w {\n");
    for (imp, n, s) in &items {
        wit.push_str(&format!("  {} {n}: {};\n", if *imp { "import" } else { "export" }, wit_ty(*s)));
    }
    wit.push_str("}\n");
    // component: imports as declared, exports re-export lifted functions
    let mut wat = String::from("(component\n");
    for (imp, n, s) in &comp {
        if *imp {
            wat.push_str(&format!("  (import \"{n}\" {})\n", wat_ty(*s)));
        }
    }
    wat.push_str("  (core module $m (func (export \"f0\")) (func (export \"f1\") (param i32)))\n  (core instance $i (instantiate $m))\n  (func $f0 (canon lift (core func $i \"f0\")))\n  (func $f1 (param \"x\" u32) (canon lift (core func $i \"f1\")))\n  (instance $i2 (export \"f\" (func $f0)))\n  (instance $i3 (export \"f\" (func $f0)) (export \"g\" (func $f0)))\n");
    for (imp, n, s) in &comp {
        if !*imp {
            wat.push_str(&format!("  (export \"{n}\" {})\n", ["(func $f0)", "(func $f1)", "(instance $i2)", "(instance $i3)"][*s as usize % 4]));
        }
    }
    wat.push_str(")\n");
    let bytes = match wat::parse_str(&wat) {
        Ok(b) => b,
        Err(e) => return Outcome::gen_invalid(format!("{e}\n{wat}")),
    };
    let dir = scratch("targets", &serde_json::to_string(c).unwrap());
    std::fs::write(dir.join("w.wit"), &wit).unwrap();
    std::fs::write(dir.join("c.wasm"), &bytes).unwrap();
    let mut args: Vec<String> = vec!["targets".into(), "c.wasm".into(), "--wit".into(), "w.wit".into()];
    if c.name_world {
        args.push("--world".into());
        args.push(if c.wrong_world { "nope".into() } else { "w".into() });
    }
    // ---- library: the documented pipeline of `wac targets`
    let want = guarded(|| -> Result<(), String> {
        let mut resolve = wit_parser::Resolve::new();
        let (pkg, _) = resolve.push_path(dir.join("w.wit")).map_err(|e| format!("{e:#}"))?;
        let enc = wit_component::encode(&resolve, pkg).map_err(|e| format!("{e:#}"))?;
        let mut types = wac_types::Types::default();
        let witp = Package::from_bytes("wit", None, enc, &mut types).map_err(|e| format!("{e:#}"))?;
        let compo = Package::from_bytes("component", None, bytes.clone(), &mut types).map_err(|e| format!("{e:#}"))?;
        let top = &types[witp.ty()];
        let world = if c.name_world {
            top.exports.get(if c.wrong_world { "nope" } else { "w" }).ok_or("no such world")?
        } else if top.exports.len() == 1 {
            top.exports.values().next().unwrap()
        } else {
            return Err("several worlds and none named".into());
        };
        let wac_types::ItemKind::Type(wac_types::Type::World(wid)) = world else { return Err("not a world".into()) };
        let Some(wac_types::ItemKind::Component(w)) = types[*wid].exports.values().next() else { return Err("not encoded as component".into()) };
        wac_types::validate_target(&types, *w, compo.ty()).map_err(|e| format!("{e}"))
    });
    let ran = run_cli(&dir, &args);
    let _ = std::fs::remove_dir_all(&dir);
    let mut o = Outcome::pass().nontrivial(!labels.is_empty()).rendered(json!({"wit": wit, "component": wat, "args": args}));
    for l in labels {
        o = o.label(format!("targets:{l}"));
    }
    let want = match want {
        Ok(w) => w,
        Err(p) => return o.with_verdict(Verdict::Foreign(format!("library pipeline panicked: {p}"))),
    };
    o = o.label(if want.is_ok() { "targets-conforms" } else { "targets-rejects" });
    if c.name_world && c.wrong_world {
        o = o.label("targets:world-flag-names-no-world");
    }
    match (&want, ran.code) {
        (Ok(()), Some(0)) => o.comparisons(1),
        (Err(_), Some(c)) if c != 0 => {
            if ran.stderr.trim().is_empty() {
                return o.with_verdict(Verdict::Fail { sig: "C19/targets/no-diagnostic".into(), msg: "non-zero exit without a diagnostic".into() });
            }
            o.comparisons(2)
        }
        _ => o.with_verdict(Verdict::Fail { sig: format!("C19/targets/verdict-differs:library-{}", if want.is_ok() { "ok" } else { "err" }), msg: format!("library: {want:?}; CLI exit {:?} stderr {}", ran.code, ran.stderr) }),
    }
}

pub fn run(tier: Tier, seed: u64, replay: Option<&std::path::Path>) -> i32 {
    let mut run = Run::new(
        "C19",
        tier,
        seed,
        "exploration",
        "the `wac` binary built from the working tree, run with an empty HOME in a scratch directory per case. compose: programs of C04's semantic generator (succeeding and failing at resolution/encoding) and three hand-made compositions (two that only validation rejects), optionally damaged (syntax error, missing package file, corrupt package file, a package moved away and named with --dep, with and without a decoy left in the deps dir) x --import-dependencies x --no-validate x -t x -o x --deps-dir. plug: sockets and 1-4 plugs of C10's generator as files (optionally two plugs with one file stem) x -t x -o. parse: grammar-generated and mutated documents. targets: generated world/component pairs with drops, extras and type changes x --world (naming the world, or a world that does not exist), single- and two-world WIT files; plug outputs whose last export name is 50 to 20000 characters long on stdout, to a file and as text. Oracle: the same pipeline executed in-process through the library with the options the documentation assigns to the flags: exit status 0 iff it succeeds; stdout / the -o file equal the library's bytes; -t output equals the text form of those bytes, assembles, validates and decodes to the same wiring; on failure a diagnostic, no stdout, no output file; embedded vs imported dependencies as documented. Non-trivial = a flag or damage that decides the outcome. Distinct by JSON hash.",
    );
    if !Path::new(BIN).exists() {
        eprintln!("BROKEN-CHECK: property=C19 the wac binary was not built at {BIN} (run through ./run.sh)");
        return 2;
    }
    let _ = std::fs::create_dir_all(SCRATCH);
    if let Some(p) = replay {
        let text = std::fs::read_to_string(p).unwrap_or_default();
        if text.contains("\"import_dependencies\"") {
            run.replay_case::<ComposeCase, _>(p, check_compose);
        } else if text.contains("\"same_stem\"") {
            run.replay_case::<PlugCase, _>(p, check_plug);
        } else if text.contains("\"name_world\"") {
            run.replay_case::<TargetsCase, _>(p, check_targets);
        } else {
            run.replay_case::<String, _>(p, check_parse);
        }
        return run.finish();
    }
    let n = tier.pick(1_600, 40_000);
    let damage = || prop_oneof![4 => Just(Damage::None), 1 => any::<u16>().prop_map(Damage::Syntax), 1 => any::<u16>().prop_map(Damage::MissingPackage), 2 => (any::<u16>(), any::<bool>()).prop_map(|(a, b)| Damage::DepOverride(a, b)), 1 => any::<u16>().prop_map(Damage::Corrupt)];
    run.explore(
        1,
        16,
        n / 16,
        move || {
            (prop_oneof![6 => crate::props::c04::case_strategy().prop_map(Source::Program), 1 => (0u8..3).prop_map(Source::Fixed)], damage(), any::<bool>(), any::<bool>(), any::<bool>(), any::<bool>(), any::<bool>())
                .prop_map(|(source, damage, import_dependencies, no_validate, wat, output, deps_dir)| ComposeCase { source, damage, import_dependencies, no_validate, wat, output, deps_dir })
        },
        check_compose,
    );
    // every flag combination on the hand-made compositions
    let mut fixed_cases = vec![];
    for k in 0..3u8 {
        for bits in 0..32u8 {
            fixed_cases.push(ComposeCase { source: Source::Fixed(k), damage: Damage::None, import_dependencies: bits & 1 != 0, no_validate: bits & 2 != 0, wat: bits & 4 != 0, output: bits & 8 != 0, deps_dir: bits & 16 != 0 });
        }
    }
    run.enumerate(&fixed_cases, check_compose);
    run.enumerate(&[50usize, 200, 700, 1500, 5000, 20000], check_long_plug);
    run.explore(2, 16, n / 32, || (crate::props::c10::case_strategy(), any::<bool>(), any::<bool>(), proptest::bool::weighted(0.3)).prop_map(|(case, wat, output, same_stem)| PlugCase { case, wat, output, same_stem }), check_plug);
    run.explore(3, 16, n / 64, || prop_oneof![crate::gen::wacsyn::syncase_strategy(4).prop_map(|s| s.text()), crate::gen::wacsyn::syncase_strategy(3).prop_map(|s| s.text().replacen(';', " ; }", 1)), "[ -~]{0,40}"], check_parse);
    run.explore(
        4,
        16,
        n / 32,
        || (proptest::collection::vec((any::<bool>(), any::<u8>(), any::<u8>()), 0..5), proptest::collection::vec((any::<u8>(), any::<u8>()), 0..3), any::<bool>(), proptest::bool::weighted(0.3), proptest::bool::weighted(0.2)).prop_map(|(world, changes, name_world, second_world, wrong_world)| TargetsCase { world, changes, name_world, second_world, wrong_world }),
        check_targets,
    );
    for l in ["pipeline-ok", "fails-at-parse", "fails-at-package-resolution", "fails-at-resolution", "fails-at-encoding", "fails-at-validation", "validation-decides", "dep-override-with-decoy", "plug-ok", "plug-fails", "several-plugs", "repeated-plug-stem", "parse-ok", "parse-fails", "targets-conforms", "targets-rejects", "targets:world-flag-names-no-world"] {
        run.floor(l, 5);
    }
    let _ = std::fs::remove_dir_all(SCRATCH);
    run.finish()
}


pub fn probe_fixed(k: u8) -> String {
    let (text, pkgs) = fixed(k);
    let doc = Document::parse(&text).unwrap();
    let mut map = indexmap::IndexMap::new();
    for (n, v, b) in &pkgs {
        map.insert(wac_types::BorrowedPackageKey::from_name_and_version(n, v.as_ref()), b.clone());
    }
    match doc.resolve(map) {
        Err(e) => format!("resolve error {e:?}"),
        Ok(r) => match r.encode(EncodeOptions { define_components: true, validate: true, processor: None }) {
            Ok(b) => format!("ok {} bytes", b.len()),
            Err(e) => format!("encode error {e:#}"),
        },
    }
}
