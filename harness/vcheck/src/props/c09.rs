//! C09 — merged import requirements satisfy every contributor, order-independently.

use crate::engine::*;
use crate::gen::wit::*;
use crate::props::c02::track_key;
use proptest::prelude::*;
use serde::{Deserialize, Serialize};
use serde_json::json;
use std::collections::{BTreeMap, BTreeSet};
use wac_types::{DefinedType, ItemKind, Package, SubtypeChecker, Type, TypeAggregator, Types, ValueType};

/// Canonical structural description of a kind (aliases resolved, resources by name).
pub fn describe(types: &Types, kind: ItemKind, depth: usize) -> String {
    if depth > 10 {
        return "…".into();
    }
    match kind {
        ItemKind::Func(id) => {
            let f = &types[id];
            format!(
                "func{}({}){}",
                if f.is_async { " async" } else { "" },
                f.params.iter().map(|(n, t)| format!("{n}: {}", describe_val(types, *t, depth + 1))).collect::<Vec<_>>().join(", "),
                f.result.map(|t| format!(" -> {}", describe_val(types, t, depth + 1))).unwrap_or_default()
            )
        }
        ItemKind::Instance(id) => {
            let i = &types[id];
            let mut ex: Vec<String> = i.exports.iter().map(|(n, k)| format!("{n}: {}", describe(types, *k, depth + 1))).collect();
            ex.sort();
            format!("instance{{{}}}", ex.join("; "))
        }
        ItemKind::Component(id) => {
            let w = &types[id];
            format!(
                "component{{imports [{}] exports [{}]}}",
                w.imports.iter().map(|(n, k)| format!("{n}: {}", describe(types, *k, depth + 1))).collect::<Vec<_>>().join("; "),
                w.exports.iter().map(|(n, k)| format!("{n}: {}", describe(types, *k, depth + 1))).collect::<Vec<_>>().join("; ")
            )
        }
        ItemKind::Module(_) => "module".into(),
        ItemKind::Value(v) => format!("value {}", describe_val(types, v, depth + 1)),
        ItemKind::Type(t) => match t {
            Type::Resource(r) => format!("resource {}", types[types.resolve_resource(r)].name),
            Type::Value(v) => format!("type {}", describe_val(types, v, depth + 1)),
            Type::Func(f) => format!("type {}", describe(types, ItemKind::Func(f), depth + 1)),
            Type::Interface(i) => format!("type {}", describe(types, ItemKind::Instance(i), depth + 1)),
            Type::World(w) => format!("type {}", describe(types, ItemKind::Component(w), depth + 1)),
            Type::Module(_) => "type module".into(),
        },
    }
}

fn describe_val(types: &Types, v: ValueType, depth: usize) -> String {
    if depth > 14 {
        return "…".into();
    }
    match types.resolve_value_type(v) {
        ValueType::Primitive(p) => p.desc().to_string(),
        ValueType::Own(r) => format!("own<{}>", types[types.resolve_resource(r)].name),
        ValueType::Borrow(r) => format!("borrow<{}>", types[types.resolve_resource(r)].name),
        ValueType::Defined(id) => match &types[id] {
            DefinedType::Tuple(ts) => format!("tuple<{}>", ts.iter().map(|t| describe_val(types, *t, depth + 1)).collect::<Vec<_>>().join(", ")),
            DefinedType::List(t) => format!("list<{}>", describe_val(types, *t, depth + 1)),
            DefinedType::FixedSizeList(t, n) => format!("list<{}, {n}>", describe_val(types, *t, depth + 1)),
            DefinedType::Option(t) => format!("option<{}>", describe_val(types, *t, depth + 1)),
            DefinedType::Result { ok, err } => format!("result<{}, {}>", ok.map(|t| describe_val(types, t, depth + 1)).unwrap_or("_".into()), err.map(|t| describe_val(types, t, depth + 1)).unwrap_or("_".into())),
            DefinedType::Variant(v) => format!("variant{{{}}}", v.cases.iter().map(|(n, t)| format!("{n}{}", t.map(|t| format!("({})", describe_val(types, t, depth + 1))).unwrap_or_default())).collect::<Vec<_>>().join(", ")),
            DefinedType::Record(r) => format!("record{{{}}}", r.fields.iter().map(|(n, t)| format!("{n}: {}", describe_val(types, *t, depth + 1))).collect::<Vec<_>>().join(", ")),
            DefinedType::Flags(f) => format!("flags{{{}}}", f.0.iter().cloned().collect::<Vec<_>>().join(", ")),
            DefinedType::Enum(e) => format!("enum{{{}}}", e.0.iter().cloned().collect::<Vec<_>>().join(", ")),
            DefinedType::Alias(_) => unreachable!(),
            DefinedType::Stream(t) => format!("stream<{}>", t.map(|t| describe_val(types, t, depth + 1)).unwrap_or_default()),
            DefinedType::Future(t) => format!("future<{}>", t.map(|t| describe_val(types, t, depth + 1)).unwrap_or_default()),
        },
    }
}

fn export_names(types: &Types, kind: ItemKind) -> Option<BTreeMap<String, String>> {
    match kind {
        ItemKind::Instance(id) => Some(types[id].exports.iter().map(|(n, k)| (n.clone(), describe(types, *k, 1))).collect()),
        _ => None,
    }
}

pub struct Contributor {
    pub name: String,
    pub types: Types,
    pub imports: Vec<(String, ItemKind)>,
}

/// Aggregate the contributors in the given order; returns the aggregator or the error message.
fn aggregate(contribs: &[&Contributor]) -> Result<TypeAggregator, String> {
    let mut agg = TypeAggregator::default();
    let mut cache = Default::default();
    let mut checker = SubtypeChecker::new(&mut cache);
    for c in contribs {
        for (name, kind) in &c.imports {
            agg = agg.aggregate(name, &c.types, *kind, &mut checker).map_err(|e| format!("{name}: {e:#}"))?;
        }
    }
    Ok(agg)
}

/// Observable summary of an aggregation result: import name -> structural description.
fn summary(agg: &TypeAggregator) -> BTreeMap<String, String> {
    let mut m: BTreeMap<String, String> = agg.imports().map(|(n, k)| (n.to_string(), describe(agg.types(), k, 0))).collect();
    // interfaces reached through `use` are part of the result too
    for (n, k) in agg.imports() {
        if let ItemKind::Instance(id) = k {
            for (un, u) in &agg.types()[id].uses {
                m.insert(format!("{n} uses {un}"), format!("{:?} {}", agg.types()[u.interface].id, describe(agg.types(), ItemKind::Instance(u.interface), 0)));
            }
        }
    }
    m
}

fn permutations(n: usize, cap: usize) -> Vec<Vec<usize>> {
    fn rec(cur: &mut Vec<usize>, used: &mut Vec<bool>, n: usize, out: &mut Vec<Vec<usize>>, cap: usize) {
        if out.len() >= cap {
            return;
        }
        if cur.len() == n {
            out.push(cur.clone());
            return;
        }
        for i in 0..n {
            if !used[i] {
                used[i] = true;
                cur.push(i);
                rec(cur, used, n, out, cap);
                cur.pop();
                used[i] = false;
            }
        }
    }
    let mut out = vec![];
    rec(&mut vec![], &mut vec![false; n], n, &mut out, cap);
    out
}

#[derive(Clone, Debug, Serialize, Deserialize)]
pub struct Case {
    pub lib: LibSpec,
    /// per contributor: which of its imports that another of its imports `use`s are *not* contributed
    /// (as when that argument is passed explicitly and only the dependant stays implicit)
    #[serde(default)]
    pub withheld: Vec<u16>,
}

fn check(c: &Case) -> Outcome {
    let mut o = check_inner(c);
    // findings in the interplay of `use`-reached interfaces with several versions on one track are
    // recorded as known; the flag keeps that record from covering plain multi-version merges
    if let Verdict::Fail { sig, msg } = &o.verdict {
        let lib = build_lib(&c.lib);
        let uses = lib.apis.iter().any(|a| a.ifaces.iter().any(|i| i.items.iter().any(|x| matches!(x, Item::Use { .. }))));
        if uses && lib.apis.len() >= 2 {
            o.verdict = Verdict::Fail { sig: format!("{sig}:use+versions"), msg: msg.clone() };
        }
    }
    o
}

fn check_inner(c: &Case) -> Outcome {
    let lib = build_lib(&c.lib);
    let comps = match build_library(&lib) {
        Ok(c) => c,
        Err(e) => return Outcome::gen_invalid(e),
    };
    // each contributor is decoded into its own collection
    let mut contribs = vec![];
    let mut withheld_any = false;
    for comp in &comps {
        let mut types = Types::default();
        let pkg = match guarded(|| Package::from_bytes(&comp.name, None, comp.bytes.clone(), &mut types)) {
            Ok(Ok(p)) => p,
            _ => return Outcome::foreign("decode failed (C08's obligation)"),
        };
        let mut imports: Vec<(String, ItemKind)> = types[pkg.ty()].imports.iter().map(|(n, k)| (n.clone(), *k)).collect();
        // interfaces that other imports of this contributor use
        let mut used: BTreeSet<String> = BTreeSet::new();
        for (_, k) in &imports {
            if let ItemKind::Instance(id) = k {
                for u in types[*id].uses.values() {
                    if let Some(n) = &types[u.interface].id {
                        used.insert(n.clone());
                    }
                }
            }
        }
        let mask = c.withheld.get(contribs.len()).copied().unwrap_or(0);
        let mut bit = 0;
        imports.retain(|(n, _)| {
            if used.contains(n) {
                bit += 1;
                if mask & (1 << (bit - 1)) != 0 {
                    withheld_any = true;
                    return false;
                }
            }
            true
        });
        contribs.push(Contributor { name: comp.name.clone(), types, imports });
    }
    contribs.retain(|c| !c.imports.is_empty());
    if contribs.len() < 2 {
        return Outcome::pass().label("fewer-than-two-contributors");
    }
    contribs.truncate(5);
    let refs: Vec<&Contributor> = contribs.iter().collect();
    // model-predicted conflict: the same bare function name required with different signatures
    let mut sigs: BTreeMap<String, BTreeSet<String>> = BTreeMap::new();
    for comp in &lib.comps {
        for it in &comp.items {
            if let WorldItem::ImportFunc(n, s) = it {
                sigs.entry(n.clone()).or_default().insert(s.wit());
            }
        }
    }
    let predicted_conflict = sigs.values().any(|s| s.len() > 1);
    // groups by track
    let mut groups: BTreeMap<String, BTreeSet<String>> = BTreeMap::new();
    for c in &contribs {
        for (n, _) in &c.imports {
            groups.entry(track_key(n)).or_default().insert(n.clone());
        }
    }
    let sharing = groups.values().any(|g| g.len() >= 2) || {
        let mut count: BTreeMap<&String, usize> = BTreeMap::new();
        for c in &contribs {
            for (n, _) in &c.imports {
                *count.entry(n).or_default() += 1;
            }
        }
        count.values().any(|v| *v >= 2)
    };
    let mut o = Outcome::pass().nontrivial(sharing || predicted_conflict).rendered(json!({"contributors": contribs.iter().map(|c| (c.name.clone(), c.imports.iter().map(|(n, _)| n.clone()).collect::<Vec<_>>())).collect::<Vec<_>>()}));
    if groups.values().any(|g| g.len() >= 2) {
        o = o.label("versions-on-one-track");
    }
    if groups.values().any(|g| g.len() >= 3) {
        o = o.label("three-versions-on-one-track");
    }
    if predicted_conflict {
        o = o.label("predicted-conflict");
    }
    if withheld_any {
        o = o.label("used-interface-not-contributed-directly");
    }
    let perms = permutations(refs.len(), 120);
    let mut base: Option<Result<BTreeMap<String, String>, String>> = None;
    let mut comparisons = 0u64;
    for perm in &perms {
        let ordered: Vec<&Contributor> = perm.iter().map(|i| refs[*i]).collect();
        let r = match guarded(|| aggregate(&ordered)) {
            Ok(r) => r,
            Err(p) => return o.with_verdict(Verdict::Fail { sig: format!("C09/panic:{}", panic_sig(&p)), msg: format!("aggregate panicked for order {perm:?}: {p}") }),
        };
        comparisons += 1;
        let this = r.as_ref().map(summary).map_err(|e| e.clone());
        // success <=> no predicted conflict
        if this.is_ok() == predicted_conflict {
            return o.with_verdict(Verdict::Fail {
                sig: if predicted_conflict { "C09/conflict-not-detected".into() } else { "C09/spurious-conflict".into() },
                msg: format!("order {perm:?}: aggregate {}; the model predicts conflict = {predicted_conflict} (bare function signatures per name: {sigs:?})", match &this { Ok(_) => "succeeded".to_string(), Err(e) => format!("failed: {e}") }),
            });
        }
        match (&base, &this) {
            (None, _) => base = Some(this.clone()),
            (Some(Ok(b)), Ok(t)) => {
                if b != t {
                    let diff: Vec<String> = b.keys().chain(t.keys()).collect::<BTreeSet<_>>().into_iter().filter(|k| b.get(*k) != t.get(*k)).map(|k| format!("{k}: first {:?} / this {:?}", b.get(k), t.get(k))).collect();
                    return o.with_verdict(Verdict::Fail { sig: "C09/order-changes-result".into(), msg: format!("contributor order {perm:?} gives a different aggregate than order {:?}:\n{}", perms[0], diff.join("\n")) });
                }
            }
            (Some(Err(_)), Err(_)) => {}
            (Some(b), t) => {
                return o.with_verdict(Verdict::Fail { sig: "C09/order-changes-success".into(), msg: format!("order {:?}: {}; order {perm:?}: {}", perms[0], b.as_ref().map(|_| "ok").unwrap_or("error"), t.as_ref().map(|_| "ok").unwrap_or("error")) });
            }
        }
        let Ok(agg) = r else { continue };
        if perm != &perms[0] && perm != perms.last().unwrap() {
            continue;
        }
        // names: one import per track, the highest version; redirects
        let names: BTreeSet<String> = agg.imports().map(|(n, _)| n.to_string()).collect();
        for (track, g) in &groups {
            let on_track: Vec<&String> = names.iter().filter(|n| &track_key(n) == track).collect();
            let mut best: Option<(&String, Option<semver::Version>)> = None;
            for n in g {
                let v = n.split_once('@').and_then(|(_, v)| semver::Version::parse(v).ok());
                if best.is_none() || v > best.as_ref().unwrap().1 {
                    best = Some((n, v));
                }
            }
            let top = best.unwrap().0;
            comparisons += 1;
            if on_track.len() != 1 || on_track[0] != top {
                return o.with_verdict(Verdict::Fail { sig: "C09/canonical-name".into(), msg: format!("track {track}: contributors require {g:?}; the aggregate has {on_track:?}, expected exactly [{top}]") });
            }
            for n in g {
                let canon = agg.canonical_import_name(n);
                comparisons += 1;
                if canon != top {
                    return o.with_verdict(Verdict::Fail { sig: "C09/redirect".into(), msg: format!("canonical_import_name({n:?}) = {canon:?}, expected {top:?} (names on the track: {g:?}, order {perm:?})") });
                }
            }
        }
        // upper bound: instance requirements merge to the union; equal items stay equal
        for c in &contribs {
            for (n, k) in &c.imports {
                let canon = agg.canonical_import_name(n).to_string();
                let Some((_, merged)) = agg.imports().find(|(m, _)| *m == canon) else {
                    return o.with_verdict(Verdict::Fail { sig: "C09/import-lost".into(), msg: format!("requirement `{n}` of {} has no import in the aggregate", c.name) });
                };
                comparisons += 1;
                match (export_names(&c.types, *k), export_names(agg.types(), merged)) {
                    (Some(need), Some(have)) => {
                        for (en, ed) in &need {
                            match have.get(en) {
                                None => return o.with_verdict(Verdict::Fail { sig: "C09/merged-lacks-export".into(), msg: format!("`{canon}` merged for `{n}` of {} lacks export `{en}`", c.name) }),
                                Some(hd) if !instance_desc_covers(hd, ed) => return o.with_verdict(Verdict::Fail { sig: "C09/merged-export-differs".into(), msg: format!("`{canon}`.{en}: contributor {} requires\n  {ed}\nmerged has\n  {hd}", c.name) }),
                                _ => {}
                            }
                        }
                    }
                    (None, None) => {
                        let (a, b) = (describe(&c.types, *k, 0), describe(agg.types(), merged, 0));
                        if a != b {
                            return o.with_verdict(Verdict::Fail { sig: "C09/merged-item-differs".into(), msg: format!("`{canon}`: contributor {} requires {a}; merged is {b}", c.name) });
                        }
                    }
                    _ => return o.with_verdict(Verdict::Fail { sig: "C09/merged-kind-differs".into(), msg: format!("`{canon}`: kind class differs from the requirement of {}", c.name) }),
                }
                // what the requirement reaches through `use` must be covered as well
                if let (ItemKind::Instance(need_id), ItemKind::Instance(have_id)) = (*k, merged) {
                    for (un, u) in &c.types[need_id].uses {
                        comparisons += 1;
                        let need = export_names(&c.types, ItemKind::Instance(u.interface)).unwrap_or_default();
                        let Some(hu) = agg.types()[have_id].uses.get(un) else {
                            return o.with_verdict(Verdict::Fail { sig: "C09/merged-loses-use".into(), msg: format!("`{canon}` merged for `{n}` of {} no longer uses `{un}`", c.name) });
                        };
                        let have = export_names(agg.types(), ItemKind::Instance(hu.interface)).unwrap_or_default();
                        for (en, ed) in &need {
                            match have.get(en) {
                                None => return o.with_verdict(Verdict::Fail { sig: "C09/used-interface-lacks-export".into(), msg: format!("`{canon}` (for `{n}` of {}) uses `{un}` from {:?}, which lacks export `{en}` of the contributor's {:?}", c.name, agg.types()[hu.interface].id, c.types[u.interface].id) }),
                                Some(hd) if !instance_desc_covers(hd, ed) => return o.with_verdict(Verdict::Fail { sig: "C09/used-interface-export-differs".into(), msg: format!("`{canon}` uses `{un}`: export `{en}` is {hd}, the contributor {} requires {ed}", c.name) }),
                                _ => {}
                            }
                        }
                    }
                }
                // wac's own checker must agree that the merged type satisfies the contributor
                let mut cache = Default::default();
                if let Err(e) = SubtypeChecker::new(&mut cache).is_subtype(merged, agg.types(), *k, &c.types) {
                    return o.with_verdict(Verdict::Fail { sig: "C09/merged-not-subtype-of-contributor".into(), msg: format!("merged `{canon}` is not a subtype of `{n}` as required by {}: {e:#}", c.name) });
                }
            }
        }
        // idempotence: aggregating every contributor again changes nothing
        let before = summary(&agg);
        let mut again: Vec<&Contributor> = ordered.clone();
        again.extend(ordered.iter().cloned());
        match guarded(|| aggregate(&again)) {
            Ok(Ok(a2)) => {
                comparisons += 1;
                if summary(&a2) != before {
                    return o.with_verdict(Verdict::Fail { sig: "C09/not-idempotent".into(), msg: "aggregating every contributor a second time changes the result".into() });
                }
            }
            Ok(Err(e)) => return o.with_verdict(Verdict::Fail { sig: "C09/not-idempotent".into(), msg: format!("aggregating every contributor a second time fails: {e}") }),
            Err(p) => return o.with_verdict(Verdict::Fail { sig: format!("C09/panic:{}", panic_sig(&p)), msg: p }),
        }
    }
    o = o.label(format!("permutations-{}", perms.len().min(120)));
    o.comparisons(comparisons)
}

/// nested instances inside an instance may themselves be unions: `have` covers `need` when equal,
/// or when both are instance descriptions and every `need` member occurs in `have`
fn instance_desc_covers(have: &str, need: &str) -> bool {
    if have == need {
        return true;
    }
    if let (Some(h), Some(n)) = (have.strip_prefix("instance{").and_then(|s| s.strip_suffix('}')), need.strip_prefix("instance{").and_then(|s| s.strip_suffix('}'))) {
        let hs: BTreeSet<&str> = h.split("; ").collect();
        return n.split("; ").all(|m| hs.contains(m));
    }
    false
}

pub fn run(tier: Tier, seed: u64, replay: Option<&std::path::Path>) -> i32 {
    let mut run = Run::new(
        "C09",
        tier,
        seed,
        "exploration",
        "multisets of 2-5 contributors = the components of a generated library, each decoded into its OWN type collection, contributing all of its imports (interfaces of one API package at several versions on the same and on different semver tracks with added functions, `use`-dependent interfaces, inline interfaces, bare functions that agree or conflict). All permutations (<= 120) of the contributors are aggregated: success must equal the model's prediction (conflict exactly when one bare function name is required with two different signatures) and be the same under every order; on success the import names and the structural description of every merged type are identical under every order; one import per reference semver track named for the highest version, canonical_import_name redirects every lower name; every contributor's instance requirement is covered export by export with a structurally equal item (independent structural walk) and wac's checker agrees merged <: contributor; aggregating everything twice changes nothing. Non-trivial = contributors share a name or track, or conflict. Distinct by JSON hash.",
    );
    run.assume("wac's checker is only a secondary witness here (its own correctness is C07's); the deciding comparison is the structural description walk");
    if let Some(p) = replay {
        run.replay_case::<Case, _>(p, check);
        return run.finish();
    }
    let n = tier.pick(16_000, 200_000);
    run.explore(1, 16, n / 16, || (libspec_strategy(6), proptest::collection::vec(prop_oneof![1 => Just(0u16), 2 => any::<u16>()], 2..6)).prop_map(|(lib, withheld)| Case { lib, withheld }), check);
    for l in ["used-interface-not-contributed-directly", "versions-on-one-track", "three-versions-on-one-track", "predicted-conflict"] {
        run.floor(l, 10);
    }
    run.finish()
}
