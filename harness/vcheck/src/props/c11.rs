//! C11 — a `targets` verdict means real conformance.

use crate::engine::*;
use crate::gen::wit::*;
use crate::oracle::wire;
use crate::props::c02::track_key;
use indexmap::IndexMap;
use proptest::prelude::*;
use serde::{Deserialize, Serialize};
use serde_json::json;
use std::collections::{BTreeMap, BTreeSet};
use wac_graph::EncodeOptions;
use wac_parser::Document;
use wac_types::{validate_target, BorrowedPackageKey, ItemKind, Package, Types};
use wasmparser::component_types::ComponentEntityType;

#[derive(Clone, Debug, Serialize, Deserialize)]
pub enum Perturb {
    DropImport(u16),
    DropExport(u16),
    ExtraImportIface(u16, u16),
    ExtraExportIface(u16, u16),
    ExtraImportFunc,
    ExtraExportFunc,
    ChangeFuncSig(u16),
    Reversion(u16, u16),
    InlineAddFunc(u16),
    InlineDropFunc(u16),
    ReplaceByDeps(u16),
}

#[derive(Clone, Debug, Serialize, Deserialize)]
pub struct Case {
    pub api: ApiSpec,
    pub versions: u8,
    pub world: CompSpec,
    pub perturb: Vec<Perturb>,
    /// a second instantiated component importing what the world imports, perturbed on its own
    #[serde(default)]
    pub second: Option<Vec<Perturb>>,
}

#[derive(Clone, Debug, PartialEq)]
enum Ext {
    Iface(usize, usize),
    Func(FuncSig),
    Inline(Vec<Item>),
    /// an API interface as the built component really imports it: the reference toolchain only keeps
    /// what is needed (interface index, export names)
    View(usize, BTreeSet<String>),
}

fn iface_names(apis: &[ApiPkg], p: usize, i: usize) -> BTreeSet<String> {
    let f = &apis[p].ifaces[i];
    // every declared name (named borrow handles are not offered to `use`, but they are exports all the same)
    let declared = f.items.iter().filter_map(|it| match it {
        Item::Type { name, .. } | Item::Resource { name, .. } => Some(name.clone()),
        _ => None,
    });
    f.type_names().into_iter().map(|(n, _)| n).chain(f.func_names()).chain(declared).collect()
}

/// a <: b
fn sub(apis: &[ApiPkg], a: &Ext, b: &Ext) -> bool {
    match (a, b) {
        (Ext::Iface(pa, ia), Ext::View(ib, names)) => ia == ib && names.is_subset(&iface_names(apis, *pa, *ia)),
        (Ext::Iface(pa, ia), Ext::Iface(pb, ib)) => ia == ib && pa >= pb,
        (Ext::Func(a), Ext::Func(b)) => a == b,
        (Ext::Inline(a), Ext::Inline(b)) => b.iter().all(|i| a.contains(i)),
        _ => false,
    }
}

#[derive(Default, Debug)]
struct Sides {
    imports: BTreeMap<String, Ext>,
    exports: BTreeMap<String, Ext>,
}

fn deps(apis: &[ApiPkg], p: usize, i: usize, out: &mut Vec<(usize, usize)>) {
    for it in &apis[p].ifaces[i].items {
        if let Item::Use { from, .. } = it {
            if !out.contains(from) {
                out.push(*from);
                deps(apis, from.0, from.1, out);
            }
        }
    }
}

fn sides(apis: &[ApiPkg], items: &[WorldItem]) -> Sides {
    let mut s = Sides::default();
    let exported: Vec<(usize, usize)> = items.iter().filter_map(|i| if let WorldItem::ExportIface(p, k) = i { Some((*p, *k)) } else { None }).collect();
    for it in items {
        match it {
            WorldItem::ImportIface(p, i) | WorldItem::ExportIface(p, i) => {
                let imp = matches!(it, WorldItem::ImportIface(..));
                // WIT elaboration: the dependencies of an import are imports; a dependency of an export is an
                // import unless the world exports that interface itself
                let mut d = vec![];
                for x in &apis[*p].ifaces[*i].items {
                    if let Item::Use { from, .. } = x {
                        if (imp || !exported.contains(from)) && !d.contains(from) {
                            d.push(*from);
                            deps(apis, from.0, from.1, &mut d);
                        }
                    }
                }
                for (dp, di) in d {
                    s.imports.insert(apis[dp].iface_path(di), Ext::Iface(dp, di));
                }
                if imp {
                    s.imports.insert(apis[*p].iface_path(*i), Ext::Iface(*p, *i));
                } else {
                    s.exports.insert(apis[*p].iface_path(*i), Ext::Iface(*p, *i));
                }
            }
            WorldItem::ImportFunc(n, f) => {
                s.imports.insert(n.clone(), Ext::Func(f.clone()));
            }
            WorldItem::ExportFunc(n, f) => {
                s.exports.insert(n.clone(), Ext::Func(f.clone()));
            }
            WorldItem::ImportInline(n, i) => {
                s.imports.insert(n.clone(), Ext::Inline(i.clone()));
            }
            WorldItem::ExportInline(n, i) => {
                s.exports.insert(n.clone(), Ext::Inline(i.clone()));
            }
        }
    }
    s
}

/// replace the model's idea of imported API interfaces by what the built component imports
fn to_views(imports: &mut BTreeMap<String, Ext>, w: &wire::Wire) {
    for (n, e) in imports.iter_mut() {
        if let Ext::Iface(_, i) = e {
            if let Some(info) = w.imports.iter().find(|x| &x.name == n) {
                let names: BTreeSet<String> = info.instance_exports.iter().flatten().map(|x| x.0.clone()).filter(|x| !x.starts_with('[')).collect();
                *e = Ext::View(*i, names);
            }
        }
    }
}

/// import/export names of world `w` in a WIT package, read with the reference validator
fn world_names(pkg: &[u8]) -> Result<(BTreeSet<String>, BTreeSet<String>), String> {
    let mut v = wasmparser::Validator::new_with_features(wasmparser::WasmFeatures::all());
    let mut outer = wasm_encoder::Component::new();
    outer.section(&wasm_encoder::RawSection { id: 4, data: pkg });
    let outer = outer.finish();
    let t = v.validate_all(&outer).map_err(|e| e.to_string())?;
    let tr = t.as_ref();
    let top = tr.component_at(0);
    let Some(ComponentEntityType::Type { referenced: wasmparser::component_types::ComponentAnyTypeId::Component(outer_w), .. }) = tr[top].exports.get("w") else { return Err("no world w".into()) };
    let Some(ComponentEntityType::Component(id)) = tr[*outer_w].exports.values().next() else { return Err("world not a component type".into()) };
    Ok((tr[*id].imports.keys().cloned().collect(), tr[*id].exports.keys().cloned().collect()))
}

#[derive(Clone, Debug, PartialEq, Eq, PartialOrd, Ord)]
enum Viol {
    NotInTarget(String),
    Missing(String),
    Mismatch(&'static str, String),
}

fn lookup<'a>(m: &'a BTreeMap<String, Ext>, n: &str, semver: bool) -> Option<&'a Ext> {
    if let Some(e) = m.get(n) {
        return Some(e);
    }
    if !semver || track_key(n) == n {
        return None;
    }
    let mut c: Vec<(&String, &Ext)> = m.iter().filter(|(k, _)| track_key(k) == track_key(n)).collect();
    c.sort_by_key(|(k, _)| semver::Version::parse(k.rsplit('@').next().unwrap()).ok());
    c.last().map(|(_, e)| *e)
}

fn expected(apis: &[ApiPkg], w: &Sides, c: &Sides, semver: bool) -> BTreeSet<Viol> {
    let mut v = BTreeSet::new();
    for (n, ce) in &c.imports {
        match lookup(&w.imports, n, semver) {
            None => {
                v.insert(Viol::NotInTarget(n.clone()));
            }
            Some(we) => {
                if !sub(apis, we, ce) {
                    v.insert(Viol::Mismatch("import", n.clone()));
                }
            }
        }
    }
    for (n, we) in &w.exports {
        match lookup(&c.exports, n, semver) {
            None => {
                v.insert(Viol::Missing(n.clone()));
            }
            Some(ce) => {
                if !sub(apis, ce, we) {
                    v.insert(Viol::Mismatch("export", n.clone()));
                }
            }
        }
    }
    v
}

fn apply(apis: &[ApiPkg], items: &mut Vec<WorldItem>, p: &Perturb, labels: &mut Vec<&'static str>) {
    let idx = |k: u16, n: usize| (k as usize * n) >> 16;
    let pos = |items: &Vec<WorldItem>, f: &dyn Fn(&WorldItem) -> bool| -> Vec<usize> { items.iter().enumerate().filter(|(_, i)| f(i)).map(|(k, _)| k).collect() };
    let is_import = |i: &WorldItem| matches!(i, WorldItem::ImportIface(..) | WorldItem::ImportFunc(..) | WorldItem::ImportInline(..));
    match p {
        Perturb::DropImport(k) => {
            let c = pos(items, &is_import);
            if !c.is_empty() {
                items.remove(c[idx(*k, c.len())]);
                labels.push("p:drop-import");
            }
        }
        Perturb::DropExport(k) => {
            let c = pos(items, &|i| !is_import(i));
            if !c.is_empty() {
                items.remove(c[idx(*k, c.len())]);
                labels.push("p:drop-export");
            }
        }
        Perturb::ExtraImportIface(pv, ii) | Perturb::ExtraExportIface(pv, ii) => {
            let p_ = idx(*pv, apis.len());
            if apis[p_].ifaces.is_empty() {
                return;
            }
            let i_ = idx(*ii, apis[p_].ifaces.len());
            let imp = matches!(p, Perturb::ExtraImportIface(..));
            let dup = items.iter().any(|it| match it {
                WorldItem::ImportIface(a, b) => imp && (*a, *b) == (p_, i_),
                WorldItem::ExportIface(a, b) => !imp && (*a, *b) == (p_, i_),
                _ => false,
            });
            if !dup {
                items.push(if imp { WorldItem::ImportIface(p_, i_) } else { WorldItem::ExportIface(p_, i_) });
                labels.push(if imp { "p:extra-import-iface" } else { "p:extra-export-iface" });
            }
        }
        Perturb::ExtraImportFunc => {
            items.push(WorldItem::ImportFunc("fextra".into(), FuncSig { params: vec![], result: None }));
            labels.push("p:extra-import-func");
        }
        Perturb::ExtraExportFunc => {
            items.push(WorldItem::ExportFunc("gextra".into(), FuncSig { params: vec![], result: None }));
            labels.push("p:extra-export-func");
        }
        Perturb::ChangeFuncSig(k) => {
            let c = pos(items, &|i| matches!(i, WorldItem::ImportFunc(..) | WorldItem::ExportFunc(..)));
            if !c.is_empty() {
                if let WorldItem::ImportFunc(_, s) | WorldItem::ExportFunc(_, s) = &mut items[c[idx(*k, c.len())]] {
                    s.params.push(("zz".into(), Ty::Prim("u32".into())));
                    labels.push("p:change-func-sig");
                }
            }
        }
        Perturb::Reversion(k, pv) => {
            let c = pos(items, &|i| matches!(i, WorldItem::ImportIface(..) | WorldItem::ExportIface(..)));
            if !c.is_empty() && apis.len() > 1 {
                let at = c[idx(*k, c.len())];
                let np = idx(*pv, apis.len());
                let (imp, op, i_) = match &items[at] {
                    WorldItem::ImportIface(a, b) => (true, *a, *b),
                    WorldItem::ExportIface(a, b) => (false, *a, *b),
                    _ => unreachable!(),
                };
                let dup = items.iter().any(|it| match it {
                    WorldItem::ImportIface(a, b) => imp && (*a, *b) == (np, i_),
                    WorldItem::ExportIface(a, b) => !imp && (*a, *b) == (np, i_),
                    _ => false,
                });
                if np != op && !dup {
                    items[at] = if imp { WorldItem::ImportIface(np, i_) } else { WorldItem::ExportIface(np, i_) };
                    labels.push("p:other-version");
                }
            }
        }
        Perturb::InlineAddFunc(k) | Perturb::InlineDropFunc(k) => {
            let c = pos(items, &|i| matches!(i, WorldItem::ImportInline(..) | WorldItem::ExportInline(..)));
            if !c.is_empty() {
                if let WorldItem::ImportInline(_, its) | WorldItem::ExportInline(_, its) = &mut items[c[idx(*k, c.len())]] {
                    if matches!(p, Perturb::InlineAddFunc(_)) {
                        its.push(Item::Func { name: "zadded".into(), sig: FuncSig { params: vec![], result: None } });
                        labels.push("p:inline-add-func");
                    } else if let Some(at) = its.iter().position(|i| matches!(i, Item::Func { .. })) {
                        if its.len() > 1 {
                            its.remove(at);
                            labels.push("p:inline-drop-func");
                        }
                    }
                }
            }
        }
        Perturb::ReplaceByDeps(k) => {
            let c = pos(items, &|i| matches!(i, WorldItem::ImportIface(..)));
            if !c.is_empty() {
                let at = c[idx(*k, c.len())];
                if let WorldItem::ImportIface(p_, i_) = items[at].clone() {
                    let mut d = vec![];
                    deps(apis, p_, i_, &mut d);
                    if !d.is_empty() {
                        items.remove(at);
                        for (dp, di) in d {
                            if !items.iter().any(|it| matches!(it, WorldItem::ImportIface(a, b) if (*a, *b) == (dp, di))) {
                                items.push(WorldItem::ImportIface(dp, di));
                            }
                        }
                        labels.push("p:replace-import-by-used-interfaces");
                    }
                }
            }
        }
    }
}

/// the world in WAC syntax (inline interfaces end in `};`)
fn wac_world(apis: &[ApiPkg], items: &[WorldItem]) -> String {
    let wit = render_world(apis, &Comp { name: "x:y".into(), version: None, items: items.to_vec() });
    let mut out = String::from("world w {\n");
    for l in wit.lines().skip(3) {
        if l == "    }" {
            out.push_str("    };\n");
        } else {
            out.push_str(l);
            out.push('\n');
        }
    }
    out
}

fn viol_of_error(e: &wac_parser::resolution::Error) -> Option<Viol> {
    use wac_parser::resolution::Error as E;
    Some(match e {
        E::ImportNotInTarget { name, .. } => Viol::NotInTarget(name.clone()),
        E::MissingTargetExport { name, .. } => Viol::Missing(name.clone()),
        E::TargetMismatch { kind, name, .. } => Viol::Mismatch(if matches!(kind, wac_types::ExternKind::Import) { "import" } else { "export" }, name.clone()),
        _ => return None,
    })
}

type Pkgs = Vec<(String, Option<semver::Version>, Vec<u8>)>;

fn resolve_doc(text: &str, pkgs: &Pkgs) -> Result<Result<Vec<u8>, Result<Viol, String>>, String> {
    let doc = Document::parse(text).map_err(|e| format!("generated document does not parse: {e:?}\n{text}"))?;
    let mut map: IndexMap<BorrowedPackageKey<'_>, Vec<u8>> = IndexMap::new();
    for (n, v, b) in pkgs {
        map.insert(BorrowedPackageKey::from_name_and_version(n, v.as_ref()), b.clone());
    }
    match guarded(|| doc.resolve(map)) {
        Err(p) => Ok(Err(Err(format!("panic: {p}")))),
        Ok(Err(e)) => {
            if std::env::var_os("C11_DEBUG").is_some() {
                eprintln!("C11_DEBUG resolve error: {e:#?}");
            }
            Ok(Err(viol_of_error(&e).ok_or_else(|| format!("{e:?}"))))
        }
        Ok(Ok(r)) => match guarded(|| r.encode(EncodeOptions { define_components: true, validate: false, processor: None })) {
            Ok(Ok(b)) => Ok(Ok(b)),
            Ok(Err(e)) => Ok(Err(Err(format!("encode: {e:#}")))),
            Err(p) => Ok(Err(Err(format!("encode panic: {p}")))),
        },
    }
}

fn has_resources(items: &[Item]) -> bool {
    items.iter().any(|i| matches!(i, Item::Resource { .. }))
}

fn check(c: &Case) -> Outcome {
    let lib = build_lib(&LibSpec { api: c.api.clone(), versions: c.versions, comps: vec![c.world.clone()] });
    let apis = &lib.apis;
    let w_items = lib.comps[0].items.clone();
    let mut c_items = w_items.clone();
    let mut labels: Vec<&'static str> = vec![];
    for p in &c.perturb {
        apply(apis, &mut c_items, p, &mut labels);
    }
    let api_texts: Vec<String> = (0..apis.len()).map(|k| render_api(apis, k)).collect();
    // reference toolchain: the component (built for the perturbed world) and the WIT package holding the world
    let comp_wit = render_world(apis, &Comp { name: "test:c0".into(), version: None, items: c_items.clone() });
    let comp = match guarded(|| build_component(&api_texts, &comp_wit)) {
        Ok(Ok(b)) => b,
        Ok(Err(e)) => return Outcome::gen_invalid(e),
        Err(p) => return Outcome::gen_invalid(format!("reference toolchain panicked: {p}")),
    };
    let is_import = |i: &WorldItem| matches!(i, WorldItem::ImportIface(..) | WorldItem::ImportFunc(..) | WorldItem::ImportInline(..));
    let mut second: Option<(Vec<WorldItem>, Vec<u8>, String)> = None;
    if let Some(ps) = &c.second {
        let mut d_items: Vec<WorldItem> = w_items.iter().filter(|i| is_import(i)).cloned().collect();
        let mut l2 = vec![];
        for p in ps {
            apply(apis, &mut d_items, p, &mut l2);
        }
        d_items.retain(|i| is_import(i));
        if !l2.is_empty() {
            labels.push("second-instantiation-perturbed");
        }
        let wit = render_world(apis, &Comp { name: "test:c1".into(), version: None, items: d_items.clone() });
        match guarded(|| build_component(&api_texts, &wit)) {
            Ok(Ok(b)) => second = Some((d_items, b, wit)),
            Ok(Err(e)) => return Outcome::gen_invalid(e),
            Err(p) => return Outcome::gen_invalid(format!("reference toolchain panicked: {p}")),
        }
    }
    let world_wit = render_world(apis, &Comp { name: "tgt:wld".into(), version: None, items: w_items.clone() });
    let world_pkg = match guarded(|| {
        let mut resolve = wit_parser::Resolve::default();
        for (i, t) in api_texts.iter().enumerate() {
            resolve.push_str(format!("api{i}.wit"), t).map_err(|e| format!("{e:#}"))?;
        }
        let id = resolve.push_str("world.wit", &world_wit).map_err(|e| format!("wit-parser rejected world: {e:#}\n{world_wit}"))?;
        wit_component::encode(&resolve, id).map_err(|e| format!("{e:#}"))
    }) {
        Ok(Ok(b)) => b,
        Ok(Err(e)) => return Outcome::gen_invalid(e),
        Err(p) => return Outcome::gen_invalid(format!("reference toolchain panicked: {p}")),
    };
    let ws = sides(apis, &w_items);
    let mut cs = sides(apis, &c_items);
    // the model's idea of the component's externs must be what the reference toolchain built; the toolchain may
    // elide imports of interfaces nothing needs (no functions, types unused)
    match wire::decode(&comp) {
        Ok(w) => {
            let wi: BTreeSet<String> = w.imports.iter().map(|i| i.name.clone()).collect();
            let we: BTreeSet<String> = w.exports.iter().map(|e| e.0.clone()).collect();
            if !wi.iter().all(|n| cs.imports.contains_key(n)) || we != cs.exports.keys().cloned().collect() {
                return Outcome::gen_invalid(format!("model/toolchain disagree on the component's externs: model {:?}/{:?}, built {wi:?}/{we:?}", cs.imports.keys(), cs.exports.keys()));
            }
            cs.imports.retain(|n, _| wi.contains(n));
            to_views(&mut cs.imports, &w);
        }
        Err(e) => return Outcome::gen_invalid(e),
    }
    let mut merge_conflict = false;
    if let Some((d_items, bytes, _)) = &second {
        let mut ds = sides(apis, d_items);
        match wire::decode(bytes) {
            Ok(w) => {
                let wi: BTreeSet<String> = w.imports.iter().map(|i| i.name.clone()).collect();
                if !wi.iter().all(|n| ds.imports.contains_key(n)) {
                    return Outcome::gen_invalid(format!("model/toolchain disagree on the second component's imports: model {:?}, built {wi:?}", ds.imports.keys()));
                }
                ds.imports.retain(|n, _| wi.contains(n));
                to_views(&mut ds.imports, &w);
            }
            Err(e) => return Outcome::gen_invalid(e),
        }
        // the composition's import of one name is the merge of what both instantiations need
        for (n, e) in ds.imports {
            match (cs.imports.get_mut(&n), &e) {
                (None, _) => {
                    cs.imports.insert(n, e);
                }
                (Some(Ext::View(_, a)), Ext::View(_, b)) => {
                    a.extend(b.iter().cloned());
                }
                (Some(Ext::Inline(a)), Ext::Inline(b)) => {
                    for it in b {
                        if !a.contains(it) {
                            a.push(it.clone());
                        }
                    }
                }
                (Some(x), _) => {
                    if *x != e {
                        merge_conflict = true;
                    }
                }
            }
        }
    }
    match world_names(&world_pkg) {
        Ok((wi, we)) => {
            if wi != ws.imports.keys().cloned().collect() || we != ws.exports.keys().cloned().collect() {
                return Outcome::gen_invalid(format!("model/toolchain disagree on the world's externs: model {:?}/{:?}, built {wi:?}/{we:?}", ws.imports.keys(), ws.exports.keys()));
            }
        }
        Err(e) => return Outcome::gen_invalid(e),
    }
    if std::env::var_os("C11_DEBUG").is_some() {
        eprintln!("C11_DEBUG world {ws:?}\nC11_DEBUG comp {cs:?}");
    }
    let e_exact = expected(apis, &ws, &cs, false);
    // the encoded output has one import per semver track, named for the highest version (C03)
    let merged = {
        let mut m: BTreeMap<String, (String, Ext)> = BTreeMap::new();
        for (n, e) in &cs.imports {
            let ver = |s: &str| semver::Version::parse(s.rsplit('@').next().unwrap()).ok();
            match m.get_mut(&track_key(n)) {
                None => {
                    m.insert(track_key(n), (n.clone(), e.clone()));
                }
                Some((name, ext)) => {
                    if let (Ext::View(_, a), Ext::View(_, b)) = (&mut *ext, e) {
                        a.extend(b.iter().cloned());
                    }
                    if ver(n) > ver(name) {
                        *name = n.clone();
                    }
                }
            }
        }
        Sides { imports: m.into_values().collect(), exports: cs.exports.clone() }
    };
    let e_semver = expected(apis, &ws, &merged, true);
    let semver_near = e_exact != e_semver;
    let resourceful = apis.iter().any(|a| a.ifaces.iter().any(|i| has_resources(&i.items)))
        || w_items.iter().chain(c_items.iter()).any(|i| matches!(i, WorldItem::ImportInline(_, its) | WorldItem::ExportInline(_, its) if has_resources(its)));
    let used = ws.imports.len() > w_items.iter().filter(|i| matches!(i, WorldItem::ImportIface(..) | WorldItem::ImportFunc(..) | WorldItem::ImportInline(..))).count();
    let versioned = apis[0].version.is_some();
    let mut o = Outcome::pass().nontrivial(!labels.is_empty() || used || versioned).rendered(json!({"world": world_wit, "component": comp_wit, "second": second.as_ref().map(|s| s.2.clone()), "expected_exact": format!("{e_exact:?}"), "expected_semver": format!("{e_semver:?}")}));
    for l in &labels {
        o = o.label(*l);
    }
    o = o.label(if e_exact.is_empty() { "conforming" } else { "non-conforming" });
    if used {
        o = o.label("world-with-used-interfaces");
    }
    if versioned {
        o = o.label("versioned-names");
    }
    if semver_near {
        o = o.label("semver-near");
    }
    if second.is_some() {
        o = o.label("two-instantiations");
    }
    if merge_conflict {
        o = o.label("two-instantiations-conflict");
    }
    for v in &e_exact {
        o = o.label(match v {
            Viol::NotInTarget(_) => "expect:import-not-in-target",
            Viol::Missing(_) => "expect:missing-export",
            Viol::Mismatch("import", _) => "expect:import-mismatch",
            Viol::Mismatch(..) => "expect:export-mismatch",
        });
    }
    let mut pkgs: Pkgs = vec![("test:c0".into(), None, comp.clone()), ("tgt:wld".into(), None, world_pkg.clone())];
    for (k, a) in apis.iter().enumerate() {
        match build_wit_package(&api_texts, k) {
            Ok(b) => pkgs.push((format!("{}:{}", a.ns, a.name), a.version.as_ref().map(|v| semver::Version::parse(v).unwrap()), b)),
            Err(e) => return Outcome::gen_invalid(e),
        }
    }
    if let Some((_, b, _)) = &second {
        pkgs.push(("test:c1".into(), None, b.clone()));
    }
    let body = format!("let c = new test:c0 {{ ... }};\n{}{}", if second.is_some() { "let d = new test:c1 { ... };\n" } else { "" }, if cs.exports.is_empty() { "" } else { "export c...;\n" });
    let mut comparisons = 0u64;
    // ---- plain document: the output every verdict is about
    let out = match resolve_doc(&format!("package test:comp;\n{body}"), &pkgs) {
        Err(e) => return o.with_verdict(Verdict::GenInvalid(e)),
        Ok(Err(e)) => return o.with_verdict(Verdict::Foreign(format!("the composition without a targets clause does not resolve/encode: {e:?}"))),
        Ok(Ok(b)) => b,
    };
    // ---- resolution-time verdicts, world from the WIT package and declared in the document
    let docs = [
        ("wit-world", format!("package test:comp targets tgt:wld/w;\n{body}"), None),
        ("wac-world", format!("package test:comp targets test:comp/w;\n{}\n{body}", wac_world(apis, &w_items)), Some(format!("package test:comp;\n{}\n{body}", wac_world(apis, &w_items)))),
    ];
    let check_form = |form: &str, text: &String, plain: &Option<String>| -> Result<(), Verdict> {
        match resolve_doc(text, &pkgs) {
            Err(e) => return Err(Verdict::GenInvalid(e)),
            Ok(Ok(b)) => {
                if !e_exact.is_empty() {
                    let sig = if e_semver.is_empty() { format!("C11/accepted-non-conforming:{form}:semver-near") } else { format!("C11/accepted-non-conforming:{form}") };
                    return Err(Verdict::Fail { sig, msg: format!("resolution accepts the document although the composition does not conform: {e_exact:?}\n{text}") });
                }
                let reference = match plain {
                    None => out.clone(),
                    Some(t) => match resolve_doc(t, &pkgs) {
                        Ok(Ok(b)) => b,
                        other => return Err(Verdict::Fail { sig: format!("C11/targets-clause-changes-outcome:{form}"), msg: format!("the document resolves with its targets clause but not without: {other:?}") }),
                    },
                };
                if b != reference {
                    return Err(Verdict::Fail { sig: format!("C11/targets-clause-changes-output:{form}"), msg: "the targets clause changes the encoded bytes".into() });
                }
            }
            Ok(Err(Ok(v))) => {
                let name = match &v {
                    Viol::NotInTarget(n) | Viol::Missing(n) | Viol::Mismatch(_, n) => n.clone(),
                };
                let explicit = w_items.iter().any(|i| matches!(i, WorldItem::ImportIface(p, k) if apis[*p].iface_path(*k) == name));
                let used_only = ws.imports.contains_key(&name) && !explicit;
                // a use of a type that the used interface itself uses from a third one
                let chain = w_items.iter().any(|i| match i {
                    WorldItem::ImportIface(p, k) | WorldItem::ExportIface(p, k) => {
                        apis[*p].ifaces[*k].items.iter().any(|it| matches!(it, Item::Use { from, .. } if apis[from.0].ifaces[from.1].items.iter().any(|x| matches!(x, Item::Use { .. }))))
                    }
                    _ => false,
                });
                let used_only_sfx = if used_only && chain { ":used-interface:use-chain" } else if used_only { ":used-interface" } else { "" };
                if e_exact.is_empty() {
                    return Err(Verdict::Fail { sig: format!("C11/rejected-conforming:{form}:{}{}", viol_class(&v), used_only_sfx), msg: format!("resolution rejects a conforming composition with {v:?}\n{text}") });
                }
                if !e_exact.contains(&v) {
                    return Err(Verdict::Fail { sig: format!("C11/wrong-diagnostic:{form}:{}{}", viol_class(&v), used_only_sfx), msg: format!("resolution reports {v:?}; the violations are {e_exact:?}\n{text}") });
                }
            }
            Ok(Err(Err(other))) => {
                if form == "wac-world" && resourceful {
                    // a world declared in the document re-declares inline resources: foreign to this property
                    return Err(Verdict::Foreign(format!("{form}: {other}")));
                }
                return Err(Verdict::Fail { sig: format!("C11/other-error:{form}:{}", crate::props::c01::msg_class(&other)), msg: format!("resolution fails with an unrelated error: {other}\n{text}") });
            }
        }
        Ok(())
    };
    comparisons += 1;
    if let Err(v) = check_form(docs[0].0, &docs[0].1, &docs[0].2) {
        return o.with_verdict(v);
    }
    // ---- stand-alone conformance check on the encoded output
    let mut types = Types::default();
    let standalone = guarded(|| -> Result<BTreeSet<Viol>, String> {
        let wit = Package::from_bytes("wit", None, world_pkg.clone(), &mut types).map_err(|e| format!("{e:#}"))?;
        let compo = Package::from_bytes("component", None, out.clone(), &mut types).map_err(|e| format!("{e:#}"))?;
        let top = &types[wit.ty()];
        let Some(ItemKind::Type(wac_types::Type::World(wid))) = top.exports.get("w") else { return Err("wit package has no world w".into()) };
        let Some(ItemKind::Component(w)) = types[*wid].exports.values().next() else { return Err("world not encoded as a component".into()) };
        let mut v = BTreeSet::new();
        if let Err(report) = validate_target(&types, *w, compo.ty()) {
            let dbg = format!("{report:?}");
            let _ = dbg;
            for n in report.imports_not_in_target() {
                v.insert(Viol::NotInTarget(n.to_string()));
            }
            for (n, _) in report.missing_exports() {
                v.insert(Viol::Missing(n.to_string()));
            }
            for (n, k, _) in report.mismatched_types() {
                v.insert(Viol::Mismatch(if matches!(k, wac_types::ExternKind::Import) { "import" } else { "export" }, n.to_string()));
            }
        }
        Ok(v)
    });
    comparisons += 1;
    let standalone = match standalone {
        Ok(Ok(v)) => v,
        Ok(Err(e)) => return o.with_verdict(Verdict::Foreign(format!("stand-alone check could not load its inputs (C08's obligation): {e}"))),
        Err(p) => return o.with_verdict(Verdict::Fail { sig: format!("C11/panic:validate_target:{}", panic_sig(&p)), msg: format!("validate_target panicked: {p}") }),
    };
    // the report keys mismatches by name, so an import and an export mismatch under one name show as one entry
    let collapse = |v: &BTreeSet<Viol>| -> BTreeSet<Viol> {
        v.iter().map(|x| match x {
            Viol::Mismatch(_, n) if v.contains(&Viol::Mismatch("import", n.clone())) && v.contains(&Viol::Mismatch("export", n.clone())) => Viol::Mismatch("either", n.clone()),
            other => other.clone(),
        }).collect()
    };
    let standalone_c: BTreeSet<Viol> = standalone.iter().map(|x| match x {
        Viol::Mismatch(_, n) if collapse(&e_semver).contains(&Viol::Mismatch("either", n.clone())) => Viol::Mismatch("either", n.clone()),
        other => other.clone(),
    }).collect();
    if standalone_c != collapse(&e_semver) {
        let tracks: Vec<String> = cs.imports.keys().map(|k| track_key(k)).collect();
        let two = tracks.iter().any(|t| tracks.iter().filter(|x| *x == t).count() >= 2);
        let sig = if standalone == e_exact { format!("C11/standalone-not-semver-aware{}", if two { ":two-versions-on-track" } else { "" }) } else { format!("C11/standalone-report-differs{}{}", if semver_near { ":semver-near" } else { "" }, if two { ":two-versions-on-track" } else { "" }) };
        return o.with_verdict(Verdict::Fail { sig, msg: format!("validate_target reports {standalone:?}; the model (semver-aware lookup as documented) gives {e_semver:?}") });
    }
    comparisons += 1;
    if e_exact.is_empty() != standalone.is_empty() {
        return o.with_verdict(Verdict::Fail {
            sig: "C11/verdicts-disagree:semver-near".into(),
            msg: format!("resolution says {} but the stand-alone check on the encoded output says {}: {:?} vs {:?}", if e_exact.is_empty() { "conforming" } else { "non-conforming" }, if standalone.is_empty() { "conforming" } else { "non-conforming" }, e_exact, standalone),
        });
    }
    // ---- reference validator: output component type <: world component type (resource-free only)
    if !resourceful {
        let mut outer = wasm_encoder::Component::new();
        outer.section(&wasm_encoder::RawSection { id: 4, data: &world_pkg });
        outer.section(&wasm_encoder::RawSection { id: 4, data: &out });
        let outer = outer.finish();
        let mut v = wasmparser::Validator::new_with_features(wasmparser::WasmFeatures::all());
        match v.validate_all(&outer) {
            Err(e) => return o.with_verdict(Verdict::Foreign(format!("output invalid (C01's obligation): {e}"))),
            Ok(t) => {
                let tr = t.as_ref();
                let wp = tr.component_at(0);
                let oc = tr.component_at(1);
                let world_ty = (|| {
                    let ComponentEntityType::Type { referenced: wasmparser::component_types::ComponentAnyTypeId::Component(outer_w), .. } = tr[wp].exports.get("w")? else { return None };
                    match tr[*outer_w].exports.values().next()? {
                        ComponentEntityType::Component(id) => Some(*id),
                        _ => None,
                    }
                })();
                let Some(world_ty) = world_ty else { return o.with_verdict(Verdict::GenInvalid("world type not found in the WIT package".into())) };
                let is_sub = ComponentEntityType::is_subtype_of(&ComponentEntityType::Component(oc), tr, &ComponentEntityType::Component(world_ty), tr);
                comparisons += 1;
                o = o.label("reference-subtyping-compared");
                if is_sub != e_exact.is_empty() && is_sub != e_semver.is_empty() {
                    return o.with_verdict(Verdict::Fail { sig: "C11/reference-subtyping-disagrees".into(), msg: format!("reference validator says output <: world is {is_sub}; expected violations {e_exact:?}") });
                }
            }
        }
    }
    comparisons += 1;
    if let Err(v) = check_form(docs[1].0, &docs[1].1, &docs[1].2) {
        return o.with_verdict(v);
    }
    // ---- a type definition under the name of a required export is not that export: the document declares
    // an interface named like an inline-interface export of the world (type definitions are exported as types
    // and the spread export skips the taken name), so the world's instance export is a *type* in the output
    if let Some((name, items)) = w_items.iter().find_map(|i| if let WorldItem::ExportInline(n, its) = i { Some((n.clone(), its.clone())) } else { None }) {
        if !resourceful && cs.exports.contains_key(&name) {
            let decl = {
                let w = render_world(apis, &Comp { name: "x:y".into(), version: None, items: vec![WorldItem::ImportInline("q".into(), items)] });
                let mut body = String::new();
                for l in w.lines().skip(4) {
                    if l == "    }" {
                        break;
                    }
                    body.push_str(l.trim_start());
                    body.push(' ');
                }
                format!("interface {name} {{ {body}}}\n")
            };
            let text = format!("package test:comp targets tgt:wld/w;\n{decl}{body}");
            comparisons += 1;
            o = o.label("type-definition-under-export-name");
            match resolve_doc(&text, &pkgs) {
                Err(e) => return o.with_verdict(Verdict::GenInvalid(e)),
                Ok(Ok(_)) => {
                    return o.with_verdict(Verdict::Fail { sig: "C11/accepted-non-conforming:type-definition-under-export-name".into(), msg: format!("the world requires an instance export `{name}`; the composition exports a type definition of that name and is accepted\n{text}") });
                }
                Ok(Err(Ok(v))) => {
                    let mut allowed = e_exact.clone();
                    allowed.insert(Viol::Mismatch("export", name.clone()));
                    if !allowed.contains(&v) {
                        return o.with_verdict(Verdict::Fail { sig: format!("C11/wrong-diagnostic:type-definition-under-export-name:{}", viol_class(&v)), msg: format!("resolution reports {v:?}; expected one of {allowed:?}\n{text}") });
                    }
                }
                Ok(Err(Err(other))) => {
                    // e.g. the declaration conflicts with something else in the document: not this property's subject
                    o = o.label(format!("type-shadow-other-error:{}", crate::props::c01::msg_class(&other)));
                }
            }
        }
    }
    o.comparisons(comparisons)
}

fn viol_class(v: &Viol) -> &'static str {
    match v {
        Viol::NotInTarget(_) => "import-not-in-target",
        Viol::Missing(_) => "missing-export",
        Viol::Mismatch("import", _) => "import-mismatch",
        Viol::Mismatch(..) => "export-mismatch",
    }
}

fn perturb_strategy() -> impl Strategy<Value = Perturb> {
    prop_oneof![
        any::<u16>().prop_map(Perturb::DropImport),
        any::<u16>().prop_map(Perturb::DropExport),
        (any::<u16>(), any::<u16>()).prop_map(|(a, b)| Perturb::ExtraImportIface(a, b)),
        (any::<u16>(), any::<u16>()).prop_map(|(a, b)| Perturb::ExtraExportIface(a, b)),
        Just(Perturb::ExtraImportFunc),
        Just(Perturb::ExtraExportFunc),
        any::<u16>().prop_map(Perturb::ChangeFuncSig),
        (any::<u16>(), any::<u16>()).prop_map(|(a, b)| Perturb::Reversion(a, b)),
        any::<u16>().prop_map(Perturb::InlineAddFunc),
        any::<u16>().prop_map(Perturb::InlineDropFunc),
        any::<u16>().prop_map(Perturb::ReplaceByDeps),
    ]
}

pub fn run(tier: Tier, seed: u64, replay: Option<&std::path::Path>) -> i32 {
    let mut run = Run::new(
        "C11",
        tier,
        seed,
        "exploration",
        "a target world (imports/exports of API interfaces at several versions incl. interfaces that `use` others, bare functions, inline interfaces) and a component built by the reference toolchain for that world after 0-2 perturbations (drop/extra import or export, changed function signature, another version of an interface, inline interface with one function more or less, an import replaced by the interfaces it uses). The composition instantiates the component with implicit imports and re-exports everything; in a third of the cases it also instantiates a second component that imports what the world imports, perturbed on its own, so that one import name is required at two types. A model of both sides (externs incl. the closure of used interfaces, cross-checked against the built component) predicts the set of conformance violations under exact-name lookup (resolution) and semver-aware lookup (stand-alone check). Checked: Document::resolve with the world taken from a WIT package and with the same world declared in the document accepts iff the set is empty and otherwise names one of the predicted violations; the targets clause does not change the bytes; a document that declares an interface *type* under the name of a required instance export is rejected; validate_target on the encoded output reports exactly the predicted set; both verdicts coincide; for resource-free worlds the reference validator's component subtyping output <: world agrees. Non-trivial = perturbed, or world with used interfaces, or versioned names. Distinct by JSON hash.",
    );
    if let Some(p) = replay {
        run.replay_case::<Case, _>(p, check);
        return run.finish();
    }
    let n = tier.pick(24_000, 400_000);
    run.explore(
        1,
        16,
        n / 16,
        || (proptest::collection::vec(ifacespec_strategy(5), 1..4), any::<u8>(), compspec_strategy(), proptest::collection::vec(perturb_strategy(), 0..3), proptest::option::weighted(0.35, proptest::collection::vec(perturb_strategy(), 0..2))).prop_map(|(ifaces, versions, world, perturb, second)| Case { api: ApiSpec { ifaces }, versions, world, perturb, second }),
        check,
    );
    for l in ["conforming", "non-conforming", "expect:import-not-in-target", "expect:missing-export", "expect:import-mismatch", "expect:export-mismatch", "world-with-used-interfaces", "versioned-names", "reference-subtyping-compared", "p:replace-import-by-used-interfaces", "two-instantiations", "second-instantiation-perturbed", "type-definition-under-export-name"] {
        run.floor(l, 10);
    }
    run.finish()
}
