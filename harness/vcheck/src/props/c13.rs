//! C13 — printing a parsed document and re-parsing it gives the same document; printing is idempotent.

use crate::engine::*;
use crate::gen::wacsyn::*;
use crate::wacutil::*;
use serde::{Deserialize, Serialize};
use serde_json::{json, Value};

#[derive(Clone, Debug, Serialize, Deserialize)]
pub struct TextCase {
    pub origin: String,
    pub text: String,
}

/// Add the exact source text of every identifier / package name / package path node, so that a
/// printer that changes how a name is written (e.g. loses a `%`) is visible even when the tree's
/// unescaped `string` is unchanged.
fn with_src(v: &Value, src: &str) -> Value {
    match v {
        Value::Object(m) => {
            let mut out = serde_json::Map::new();
            for (k, x) in m {
                out.insert(k.clone(), with_src(x, src));
            }
            if let (Some(Value::String(_)), Some(span)) = (m.get("string"), m.get("span")) {
                if let (Some(o), Some(l)) = (span.get("offset").and_then(|x| x.as_u64()), span.get("length").and_then(|x| x.as_u64())) {
                    let (o, l) = (o as usize, l as usize);
                    if let Some(s) = src.get(o..o + l) {
                        out.insert("src".into(), Value::String(s.to_string()));
                    }
                }
            }
            Value::Object(out)
        }
        Value::Array(a) => Value::Array(a.iter().map(|x| with_src(x, src)).collect()),
        o => o.clone(),
    }
}

pub fn check_text(text: &str, labels: Vec<String>, nontrivial: bool) -> Outcome {
    let base = Outcome::pass().labels(labels).nontrivial(nontrivial);
    let (t0, p1) = match parse_print(text) {
        Ok(x) => x,
        Err(e) => return base.with_verdict(Verdict::Foreign(format!("input not accepted by the parser (C12's business): {}", e.message))),
    };
    let n0 = normalize_keep_docs(&with_src(&t0, text));
    let has_targets = t0.pointer("/directive/targets").is_some();
    let (t1, p2) = match parse_print(&p1) {
        Ok(x) => x,
        Err(e) => {
            let sig = if has_targets && e.variant == "Expected" { "C13/targets-keyword-dropped" } else { "C13/printed-text-does-not-parse" };
            return base
                .rendered(json!({"source": text, "printed": p1}))
                .with_verdict(Verdict::Fail { sig: sig.into(), msg: format!("printer output does not re-parse: {} at {}+{}\n--- printed ---\n{p1}", e.message, e.offset, e.len) });
        }
    };
    let n1 = normalize_keep_docs(&with_src(&t1, &p1));
    if let Some(path) = first_diff(&n0, &n1) {
        let a = at_path(&n0, &path).cloned().unwrap_or(Value::Null);
        let b = at_path(&n1, &path).cloned().unwrap_or(Value::Null);
        // classify: fill argument that came back as a spread
        let sig = if path.contains(".arguments[") && (path.ends_with(".fill") || path.ends_with(".spread")) {
            "C13/non-final-fill-reparsed-as-spread".to_string()
        } else if path.contains(".arguments") {
            // argument list length changed because `...` swallowed the next identifier
            let parent = path.rsplit_once(".arguments").map(|x| format!("{}.arguments", x.0)).unwrap_or_default();
            let had_nonfinal_fill = at_path(&n0, &parent)
                .and_then(|v| v.as_array())
                .map(|args| args.iter().enumerate().any(|(i, a)| a.get("fill").is_some() && i + 1 < args.len()))
                .unwrap_or(false);
            if had_nonfinal_fill {
                "C13/non-final-fill-reparsed-as-spread".to_string()
            } else {
                format!("C13/tree-differs:{}", generic_path(&path))
            }
        } else {
            format!("C13/tree-differs:{}", generic_path(&path))
        };
        return base
            .rendered(json!({"source": text, "printed": p1}))
            .with_verdict(Verdict::Fail { sig, msg: format!("re-parsed tree differs at {path}: original {a} vs reparsed {b}\n--- printed ---\n{p1}") });
    }
    if p2 != p1 {
        return base.rendered(json!({"source": text, "printed": p1, "printed_again": p2})).with_verdict(Verdict::Fail {
            sig: "C13/not-idempotent".into(),
            msg: format!("printing the re-parsed document gives different text\n--- first ---\n{p1}\n--- second ---\n{p2}"),
        });
    }
    base.comparisons(3)
}

fn check_syn(c: &SynCase) -> Outcome {
    let toks = c.toks();
    let text = render(&toks, &c.layout);
    let feats = features(&c.doc, &toks);
    let nontrivial = !feats.is_empty();
    let mut labels: Vec<String> = feats.iter().map(|s| s.to_string()).collect();
    if text.contains("///") || text.contains("/**") {
        labels.push("doc-comments".into());
    }
    check_text(&text, labels, nontrivial).rendered(json!({"text": text}))
}

fn check_file(c: &TextCase) -> Outcome {
    check_text(&c.text, vec!["repo-file".into()], true)
}

pub fn run(tier: Tier, seed: u64, replay: Option<&std::path::Path>) -> i32 {
    let mut run = Run::new(
        "C13",
        tier,
        seed,
        "exploration",
        "documents derived from the EBNF by the syntactic generator (all statement kinds, all argument forms incl. non-final `...`, %-escapes, string names, versions, targets clause, resources with constructor/static, use renames, include-with) rendered with random layout and (doc) comments, plus every .wac file under /repo that parses. Oracle: print(parse(s)) re-parses; span-stripped trees (with the exact source text of every identifier/package name/path, docs flattened to non-empty trimmed lines) are equal; printing again is byte-identical. Non-trivial = contains at least one of the constructs named in the statement (feature labels). Distinct by JSON hash.",
    );
    run.assume("T6: doc comments compared after flattening to non-empty trimmed lines");
    run.assume("inputs the parser rejects are outside C13's domain (counted as foreign)");
    if let Some(p) = replay {
        let text = std::fs::read_to_string(p).unwrap_or_default();
        if text.contains("\"origin\"") {
            run.replay_case::<TextCase, _>(p, check_file);
        } else {
            run.replay_case::<SynCase, _>(p, check_syn);
        }
        return run.finish();
    }
    for f in ["targets-clause", "version", "percent-escape", "string-name", "arg-inferred", "arg-named", "arg-spread", "arg-fill", "non-final-fill", "static-method", "constructor", "use-rename", "include-with"] {
        run.floor(f, 5);
    }
    let files: Vec<TextCase> = repo_wac_files().into_iter().map(|(origin, text)| TextCase { origin, text }).collect();
    run.set_extra("repo_wac_files", json!(files.len()));
    run.enumerate(&files, check_file);
    let cases = tier.pick(40_000, 600_000);
    run.explore(1, 16, cases / 16, || syncase_strategy(6), check_syn);
    run.finish()
}
