//! C16 — composition is reproducible: same inputs, same bytes / diagnostics / printed text, in the
//! same process, on a clone, and in fresh processes (fresh per-process hash randomisation).

use crate::engine::*;
use crate::gen::ghist::{execute, gcase_strategy, BuildError, GCase};
use crate::gen::wacsyn::{syncase_strategy, SynCase};
use crate::props::c06::{History, Op};
use crate::props::c14::fixtures;
use indexmap::IndexMap;
use miette::Diagnostic;
use proptest::prelude::*;
use proptest::strategy::ValueTree;
use serde::{Deserialize, Serialize};
use serde_json::json;
use std::io::{BufRead, Write};
use wac_graph::EncodeOptions;
use wac_parser::Document;

#[derive(Clone, Debug, Serialize, Deserialize)]
pub enum Case {
    Graph(GCase),
    Syn(SynCase),
    Text(String),
    Fixture(usize),
    Hist(History),
    Prog(crate::props::c04::Case),
    /// definition order of one base type (0) and independent dependants of it (1..)
    TypeDefs(Vec<u8>),
    /// `wac_graph::plug` on a generated socket and plugs
    Plug(crate::props::c10::Case),
}

fn render<E: Diagnostic + Send + Sync + 'static>(e: E, src: &str) -> String {
    let report = miette::Report::new(e).with_source_code(miette::NamedSource::new("input.wac", src.to_string()));
    let mut out = String::new();
    let _ = miette::GraphicalReportHandler::new().with_cause_chain().with_theme(miette::GraphicalTheme::unicode_nocolor()).render_report(&mut out, report.as_ref());
    out
}

fn observe_text(text: &str, pkgs: &[(String, Option<semver::Version>, Vec<u8>)]) -> String {
    let mut obs = String::new();
    let doc = match Document::parse(text) {
        Ok(d) => d,
        Err(e) => return format!("parse-error:{}", render(e, text)),
    };
    obs.push_str(&serde_json::to_string(&doc).unwrap());
    let mut printed = String::new();
    let _ = wac_parser::DocumentPrinter::new(&mut printed, text, None).document(&doc);
    obs.push_str(&printed);
    let keys = match wac_resolver::packages(&doc) {
        Ok(k) => k,
        Err(e) => return format!("{obs}discovery-error:{}", render(e, text)),
    };
    obs.push_str(&format!("keys:{:?}", keys.keys().map(|k| k.to_string()).collect::<Vec<_>>()));
    let mut map = IndexMap::new();
    for (k, _) in keys.iter() {
        if let Some((_, _, b)) = pkgs.iter().find(|(n, v, _)| n == k.name && v.as_ref() == k.version) {
            map.insert(*k, b.clone());
        }
    }
    match doc.resolve(map) {
        Err(e) => format!("{obs}resolve-error:{}", render(e, text)),
        Ok(res) => {
            for define_components in [true, false] {
                match res.encode(EncodeOptions { define_components, validate: false, processor: None }) {
                    Ok(b) => obs.push_str(&format!("bytes:{}", sha_hex(&b))),
                    Err(e) => obs.push_str(&format!("encode-error:{}", render(e, text))),
                }
            }
            obs
        }
    }
}

fn observe_graph(g: &wac_graph::CompositionGraph) -> String {
    let mut obs = String::new();
    for define_components in [true, false] {
        match g.encode(EncodeOptions { define_components, validate: false, processor: None }) {
            Ok(b) => obs.push_str(&format!("bytes:{}", sha_hex(&b))),
            Err(e) => obs.push_str(&format!("encode-error:{e}")),
        }
    }
    obs
}

/// One observation of a case (pure function of the case in a correct implementation).
pub fn observe(c: &Case) -> String {
    match c {
        Case::Graph(gc) => match execute(gc) {
            Ok(b) => {
                let a = observe_graph(&b.graph);
                let cl = observe_graph(&b.graph.clone());
                if a != cl {
                    return format!("CLONE-DIFFERS\n{a}\n{cl}");
                }
                a
            }
            Err(BuildError::Generator(e)) => format!("generator:{}", e.lines().next().unwrap_or("")),
            Err(BuildError::Foreign(e)) => format!("foreign:{e}"),
            Err(BuildError::OpPanic(e)) => format!("op-panic:{e}"),
        },
        Case::Syn(s) => observe_text(&s.text(), &[]),
        Case::Text(t) => observe_text(t, &[]),
        Case::Fixture(i) => {
            let f = &fixtures()[*i % fixtures().len()];
            observe_text(&f.text, &f.packages)
        }
        Case::Hist(h) => crate::props::c06::observe_history(h),
        Case::Prog(p) => {
            let (text, pkgs) = crate::props::c04::document_and_packages(p);
            observe_text(&text, &pkgs)
        }
        Case::Plug(c) => match crate::props::c10::materialise(c) {
            Err(e) => format!("generator:{}", e.lines().next().unwrap_or("")),
            Ok((socket, plugs)) => {
                let mut g = wac_graph::CompositionGraph::new();
                let Ok(sp) = wac_types::Package::from_bytes("socket", None, socket.bytes.clone(), g.types_mut()) else { return "decode-error".into() };
                let Ok(s) = g.register_package(sp) else { return "register-error".into() };
                let mut ids = vec![];
                for (k, p) in plugs.iter().enumerate() {
                    let Ok(pp) = wac_types::Package::from_bytes(&format!("plug:p{k}"), None, p.bytes.clone(), g.types_mut()) else { return "decode-error".into() };
                    let Ok(id) = g.register_package(pp) else { return "register-error".into() };
                    ids.push(id);
                }
                match wac_graph::plug(&mut g, ids, s) {
                    Err(e) => format!("plug-error:{e}"),
                    Ok(()) => observe_graph(&g),
                }
            }
        },
        Case::TypeDefs(order) => {
            use wac_types::{DefinedType, PrimitiveType, Type, ValueType};
            let mut g = wac_graph::CompositionGraph::new();
            let base = g.types_mut().add_defined_type(DefinedType::Alias(ValueType::Primitive(PrimitiveType::U8)));
            let mut tys = vec![base];
            for k in 1..6u32 {
                let d = match k {
                    1 => DefinedType::List(ValueType::Defined(base)),
                    2 => DefinedType::Option(ValueType::Defined(base)),
                    3 => DefinedType::Tuple(vec![ValueType::Defined(base), ValueType::Defined(base)]),
                    4 => DefinedType::Result { ok: Some(ValueType::Defined(base)), err: None },
                    _ => DefinedType::Result { ok: None, err: Some(ValueType::Defined(base)) },
                };
                tys.push(g.types_mut().add_defined_type(d));
            }
            let mut seen = vec![];
            for o in order {
                let i = *o as usize % tys.len();
                if seen.contains(&i) {
                    continue;
                }
                seen.push(i);
                if g.define_type(format!("t{i}"), Type::Value(ValueType::Defined(tys[i]))).is_err() {
                    return "define_type-error".into();
                }
            }
            observe_graph(&g)
        }
    }
}

/// Worker: read JSON cases from stdin, print one sha per line.
pub fn worker() -> i32 {
    let stdin = std::io::stdin();
    let stdout = std::io::stdout();
    let mut out = stdout.lock();
    for line in stdin.lock().lines() {
        let Ok(line) = line else { break };
        let case: Case = match serde_json::from_str(&line) {
            Ok(c) => c,
            Err(e) => {
                let _ = writeln!(out, "BADCASE {e}");
                continue;
            }
        };
        let r = guarded(|| {
            let a = observe(&case);
            let b = observe(&case);
            (a, b)
        });
        let line = match r {
            Ok((a, b)) => {
                if a.starts_with("CLONE-DIFFERS") {
                    "CLONE-DIFFERS".to_string()
                } else if a != b {
                    format!("INPROCESS-DIFFERS {} {}", sha_hex(a.as_bytes()), sha_hex(b.as_bytes()))
                } else {
                    sha_hex(a.as_bytes())
                }
            }
            Err(p) => format!("PANIC {}", panic_sig(&p)),
        };
        let _ = writeln!(out, "{line}");
    }
    0
}

fn handwritten() -> Vec<Case> {
    let texts = [
        "package a:b;\nworld w1 { import f: func(); import g: func(); }\nworld w2 { include w1 with { x as y, z as q, k as l, m as n }; }\n",
        "package a:b;\nworld w1 { import f: func(); }\nworld w2 { include w1 with { a1 as b1, a2 as b2 }; }\n",
        "package a:b;\ninterface i { type t = u8; record r { a: t } f: func(x: r) -> list<r>; }\nworld w { import i; export i; }\n",
        "package a:b;\ntype t0 = u8;\ntype t1 = list<t0>;\ntype t2 = tuple<t0, t1>;\ntype t3 = option<t2>;\nrecord r { a: t3, b: t1 }\n",
        "package a:b;\nimport a: func();\nimport b: func();\nimport c: func();\nimport d: func();\nexport a as \"w\";\nexport b as \"x\";\nexport c as \"y\";\nexport d as \"z\";\n",
        "package a:b;\nlet x = new u:k { ... };\nlet y = new u:k2 { ... };\nlet z = new u:k3 { a: x, b: y, ... };\n",
    ];
    texts.iter().map(|t| Case::Text(t.to_string())).collect()
}

fn nontrivial(c: &Case) -> bool {
    match c {
        Case::Graph(g) => g.ops.len() >= 3,
        Case::Syn(s) => s.doc.stmts.len() >= 2,
        Case::Text(_) => true,
        Case::Fixture(_) => true,
        Case::Hist(h) => h.ops.len() >= 4,
        Case::Prog(p) => p.choices.len() >= 10,
        Case::TypeDefs(o) => o.len() >= 3,
        Case::Plug(c) => c.plugs.len() >= 1,
    }
}

fn label(c: &Case) -> &'static str {
    match c {
        Case::Graph(_) => "graph-history",
        Case::Syn(_) => "grammar-document",
        Case::Text(_) => "handwritten-document",
        Case::Fixture(_) => "repo-fixture",
        Case::Hist(_) => "api-history-with-type-definitions",
        Case::Prog(_) => "semantic-program",
        Case::TypeDefs(_) => "type-definition-order",
        Case::Plug(_) => "plug",
    }
}

pub fn run(tier: Tier, seed: u64, replay: Option<&std::path::Path>) -> i32 {
    let k = tier.pick(4usize, 12usize);
    let mut run = Run::new(
        "C16",
        tier,
        seed,
        "exploration",
        "cases: graph histories over generated libraries (C01 generator), API histories on the tiny universe that define base types after their dependants (C06 generator), definition orders of one base type and five independent dependants of it, `plug()` on sockets and plugs of C10's generator, grammar-generated documents, programs of C04's semantic generator with their generated libraries (resolvable documents with spreads, implicit imports, nested instantiations), every repository fixture with its packages, and hand-written documents with several unknown `include ... with` names / many same-rank imports. Each case is observed (Debug of the graph, encode bytes in both dependency modes, serialised tree, printed text, discovered keys, rendered diagnostics) twice in one process and on a clone, and in K fresh worker processes (K=4 quick, 12 thorough; each has its own hash seeds); all SHA-256 digests must be equal. Non-trivial = histories with >= 3 ops, documents with >= 2 statements, fixtures, hand-written cases. Distinct by JSON hash.",
    );
    run.assume("a sample of per-process hash seeds, not all of them");
    if let Some(p) = replay {
        run.strict_replay = true;
        let text = std::fs::read_to_string(p).expect("replay file");
        let v: serde_json::Value = serde_json::from_str(&text).expect("json");
        let case: Case = serde_json::from_value(v["case"].clone()).expect("case");
        let outs = run_workers(&[case.clone()], k.max(8));
        let o = judge(&case, &outs.iter().map(|w| w[0].clone()).collect::<Vec<_>>());
        run.record(&v["case"], &o);
        return run.finish();
    }
    // build the case list deterministically from the seed
    let mut cases: Vec<Case> = handwritten();
    for i in 0..fixtures().len() {
        cases.push(Case::Fixture(i));
    }
    let mut runner = runner_for(seed, 1600);
    let ng = tier.pick(1500, 20_000);
    let gs = gcase_strategy(30);
    for _ in 0..ng {
        if let Ok(t) = gs.new_tree(&mut runner) {
            cases.push(Case::Graph(t.current()));
        }
    }
    let ss = syncase_strategy(5);
    for _ in 0..tier.pick(1500, 20_000) {
        if let Ok(t) = ss.new_tree(&mut runner) {
            cases.push(Case::Syn(t.current()));
        }
    }
    let hs = proptest::collection::vec(crate::props::c06::op_strategy(), 4..40).prop_map(|ops| {
        // bias: define the three types in dependants-first order somewhere in the history
        let mut ops = ops;
        ops.insert(0, Op::DefineType(0, 2));
        ops.insert(1, Op::DefineType(1, 1));
        ops.insert(2, Op::DefineType(2, 0));
        History { ops }
    });
    for _ in 0..tier.pick(2000, 30_000) {
        if let Ok(t) = hs.new_tree(&mut runner) {
            cases.push(Case::Hist(t.current()));
        }
    }
    // a base type defined after several independent dependants of it, in every position
    for perm in [[1u8, 2, 0, 3, 4, 5], [5, 4, 3, 2, 1, 0], [1, 2, 3, 4, 5, 0], [0, 1, 2, 3, 4, 5], [3, 1, 0, 2, 5, 4], [2, 5, 1, 0, 4, 3]] {
        cases.push(Case::TypeDefs(perm.to_vec()));
    }
    let ts = proptest::collection::vec(0u8..6, 2..10);
    for _ in 0..tier.pick(200, 2_000) {
        if let Ok(t) = ts.new_tree(&mut runner) {
            cases.push(Case::TypeDefs(t.current()));
        }
    }
    let pl = crate::props::c10::case_strategy();
    for _ in 0..tier.pick(1500, 20_000) {
        if let Ok(t) = pl.new_tree(&mut runner) {
            cases.push(Case::Plug(t.current()));
        }
    }
    let ps = crate::props::c04::case_strategy();
    for _ in 0..tier.pick(3000, 40_000) {
        if let Ok(t) = ps.new_tree(&mut runner) {
            cases.push(Case::Prog(t.current()));
        }
    }
    let outs = run_workers(&cases, k);
    for (i, c) in cases.iter().enumerate() {
        let col: Vec<String> = outs.iter().map(|w| w.get(i).cloned().unwrap_or_else(|| "MISSING".into())).collect();
        let o = judge(c, &col);
        run.record(&serde_json::to_value(c).unwrap(), &o);
    }
    run.set_extra("worker_processes_per_case", json!(k));
    run.finish()
}

fn judge(c: &Case, col: &[String]) -> Outcome {
    let o = Outcome::pass().nontrivial(nontrivial(c)).label(label(c)).comparisons(col.len() as u64 + 2);
    if col.iter().any(|s| s == "MISSING" || s.starts_with("BADCASE")) {
        return o.with_verdict(Verdict::GenInvalid("worker did not answer".into()));
    }
    if let Some(s) = col.iter().find(|s| s.starts_with("CLONE-DIFFERS")) {
        return o.with_verdict(Verdict::Fail { sig: "C16/clone-differs".into(), msg: format!("a clone of the graph encodes differently ({s})") });
    }
    if let Some(s) = col.iter().find(|s| s.starts_with("INPROCESS-DIFFERS")) {
        return o.with_verdict(Verdict::Fail { sig: format!("C16/differs-within-one-process:{}", label(c)), msg: format!("two executions in one process differ: {s}") });
    }
    if col.iter().any(|s| s.starts_with("PANIC")) {
        return o.with_verdict(Verdict::Foreign(format!("panic (another property's obligation): {}", col[0])));
    }
    let first = &col[0];
    if col.iter().any(|s| s != first) {
        let mut distinct: Vec<&String> = col.iter().collect();
        distinct.sort();
        distinct.dedup();
        let kind = match c {
            Case::Text(t) if t.contains("include") => "handwritten-include-with",
            _ => label(c),
        };
        return o.with_verdict(Verdict::Fail { sig: format!("C16/differs-across-processes:{kind}"), msg: format!("{} fresh processes produced {} distinct observations: {:?}", col.len(), distinct.len(), distinct) });
    }
    o
}

/// Run `k` fresh worker processes over all cases; returns per-worker answer lists.
fn run_workers(cases: &[Case], k: usize) -> Vec<Vec<String>> {
    let exe = std::env::current_exe().expect("exe");
    let input: String = cases.iter().map(|c| serde_json::to_string(c).unwrap() + "\n").collect();
    let mut handles = vec![];
    for _ in 0..k {
        let exe = exe.clone();
        let input = input.clone();
        handles.push(std::thread::spawn(move || {
            let mut child = std::process::Command::new(exe)
                .arg("--worker-c16")
                .env("RUST_BACKTRACE", "0")
                .env("RUST_LIB_BACKTRACE", "0")
                .stdin(std::process::Stdio::piped())
                .stdout(std::process::Stdio::piped())
                .stderr(std::process::Stdio::null())
                .spawn()
                .expect("spawn worker");
            let mut stdin = child.stdin.take().unwrap();
            let writer = std::thread::spawn(move || {
                let _ = stdin.write_all(input.as_bytes());
            });
            let out = child.wait_with_output().expect("worker output");
            let _ = writer.join();
            String::from_utf8_lossy(&out.stdout).lines().map(|l| l.to_string()).collect::<Vec<_>>()
        }));
    }
    handles.into_iter().map(|h| h.join().unwrap()).collect()
}
