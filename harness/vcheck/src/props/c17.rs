//! C17 — package discovery finds every package resolution will ask for.

use crate::engine::*;
use crate::gen::wacsyn::*;
use crate::props::c14::fixtures;
use indexmap::IndexMap;
use miette::Diagnostic;
use proptest::prelude::*;
use serde::{Deserialize, Serialize};
use serde_json::json;
use std::collections::{BTreeMap, BTreeSet};
use wac_graph::EncodeOptions;
use wac_parser::Document;

fn render<E: Diagnostic + Send + Sync + 'static>(e: E, src: &str) -> String {
    let report = miette::Report::new(e).with_source_code(miette::NamedSource::new("input.wac", src.to_string()));
    let mut out = String::new();
    let _ = miette::GraphicalReportHandler::new().with_cause_chain().with_theme(miette::GraphicalTheme::unicode_nocolor()).render_report(&mut out, report.as_ref());
    out
}

type Pkgs = Vec<(String, Option<semver::Version>, Vec<u8>)>;

/// Resolve (and encode) with exactly the given packages; the result as a comparable string plus
/// the set of package keys that resolution consumed.
fn resolve_with(doc: &Document, text: &str, pkgs: &Pkgs, only: Option<&BTreeSet<(String, Option<String>)>>) -> Result<String, String> {
    let mut map = IndexMap::new();
    let versions: Vec<Option<semver::Version>> = pkgs.iter().map(|p| p.1.clone()).collect();
    for (i, (n, v, b)) in pkgs.iter().enumerate() {
        if let Some(only) = only {
            if !only.contains(&(n.clone(), v.as_ref().map(|v| v.to_string()))) {
                continue;
            }
        }
        map.insert(wac_types::BorrowedPackageKey::from_name_and_version(n, versions[i].as_ref()), b.clone());
    }
    // the keys must live as long as the document borrows them: leak is avoided by scoping everything here
    let r = guarded(|| match doc.resolve(map) {
        Err(e) => format!("resolve-error: {}", render(e, text)),
        Ok(res) => match res.encode(EncodeOptions { define_components: true, validate: false, processor: None }) {
            Ok(b) => format!("bytes: {}", sha_hex(&b)),
            Err(e) => format!("encode-error: {}", render(e, text)),
        },
    });
    r.map_err(|p| format!("panic: {p}"))
}

fn stub_component() -> Vec<u8> {
    static B: std::sync::OnceLock<Vec<u8>> = std::sync::OnceLock::new();
    B.get_or_init(|| wat::parse_str(r#"(component (import "f" (func)) (import "i" (instance (export "g" (func)))) (export "f" (func 0)) (export "e" (instance 0)))"#).unwrap()).clone()
}

/// A stub package per referenced package: a WIT package defining an interface / world for every
/// referenced first path segment when the reference toolchain accepts it, else a small component.
fn stub_universe(refs: &[PkgRef]) -> Pkgs {
    let mut by_pkg: BTreeMap<(String, Option<String>), Vec<&PkgRef>> = BTreeMap::new();
    for r in refs {
        by_pkg.entry((r.name.clone(), r.version.clone())).or_default().push(r);
    }
    let mut out = vec![];
    for ((name, version), rs) in by_pkg {
        let ver = version.as_ref().and_then(|v| semver::Version::parse(v).ok());
        let mut bytes = None;
        if rs.iter().all(|r| r.kind != RefKind::New) && !name.contains('%') {
            let mut wit = format!("package {name}{};\n", version.as_ref().map(|v| format!("@{v}")).unwrap_or_default());
            let mut seen = BTreeSet::new();
            for r in &rs {
                if let Some(seg) = &r.segment {
                    if seen.insert(seg.clone()) {
                        if matches!(r.kind, RefKind::Include | RefKind::Targets) {
                            wit.push_str(&format!("world {seg} {{ import f: func(); }}\n"));
                        } else {
                            wit.push_str(&format!("interface {seg} {{ type a = u8; type b = u8; type c = u8; type foo = u8; type bar = u8; type baz = u8; f: func(); }}\n"));
                        }
                    }
                }
            }
            bytes = guarded(|| {
                let mut resolve = wit_parser::Resolve::default();
                let id = resolve.push_str("stub.wit", &wit).ok()?;
                wit_component::encode(&resolve, id).ok()
            })
            .ok()
            .flatten();
        }
        out.push((name, ver, bytes.unwrap_or_else(stub_component)));
    }
    out
}

fn check_syn(c: &SynCase) -> Outcome {
    let text = c.text();
    let refs = references(&c.doc);
    let own = c.doc.package.name_text();
    let mut o = Outcome::pass().rendered(json!({"text": text}));
    let doc = match Document::parse(&text) {
        Ok(d) => d,
        Err(e) => return o.with_verdict(Verdict::Foreign(format!("generated document does not parse (C12's obligation): {e}"))),
    };
    let self_inst = refs.iter().any(|r| r.kind == RefKind::New && r.name == own);
    let keys = match guarded(|| wac_resolver::packages(&doc)) {
        Err(p) => return o.with_verdict(Verdict::Foreign(format!("discovery panicked (C14's obligation): {p}"))),
        Ok(Err(e)) => {
            let is_self = matches!(e, wac_resolver::Error::CannotInstantiateSelf { .. });
            o = o.label("self-instantiation");
            if is_self && self_inst {
                return o.nontrivial(true).comparisons(1);
            }
            return o.with_verdict(Verdict::Fail { sig: "C17/discovery-error".into(), msg: format!("packages() failed with `{e}`; the document instantiates its own package = {self_inst}\n{text}") });
        }
        Ok(Ok(k)) => k,
    };
    if self_inst {
        return o.with_verdict(Verdict::Fail { sig: "C17/self-instantiation-not-rejected".into(), msg: format!("the document instantiates its own package `{own}` but discovery accepted it\n{text}") });
    }
    let found: BTreeSet<(String, Option<String>)> = keys.keys().map(|k| (k.name.to_string(), k.version.map(|v| v.to_string()))).collect();
    // (1) completeness against the generator's own list; the own package is never reported
    let mut comparisons = 0;
    for r in &refs {
        comparisons += 1;
        if r.name == own {
            continue;
        }
        let key = (r.name.clone(), r.version.as_ref().and_then(|v| semver::Version::parse(v).ok()).map(|v| v.to_string()));
        if !found.contains(&key) {
            return o.with_verdict(Verdict::Fail {
                sig: format!("C17/reference-not-discovered:{:?}", r.kind),
                msg: format!("the {:?} reference to `{}`{} (nesting depth {}) is not among the discovered packages {found:?}\n{text}", r.kind, r.name, r.version.as_ref().map(|v| format!("@{v}")).unwrap_or_default(), r.depth),
            });
        }
    }
    if found.iter().any(|(n, _)| n == &own) {
        return o.with_verdict(Verdict::Fail { sig: "C17/own-package-discovered".into(), msg: format!("the document's own package `{own}` is reported as a dependency\n{text}") });
    }
    for r in &refs {
        o = o.label(format!("ref-{:?}", r.kind));
        if r.depth >= 1 {
            o = o.label("ref-nested");
        }
    }
    // (2) metamorphic: all stubbed packages vs exactly the discovered ones vs a superset
    let universe = stub_universe(&refs);
    let mut superset = universe.clone();
    superset.push(("zz:unrelated".to_string(), None, stub_component()));
    let all = resolve_with(&doc, &text, &universe, None);
    let disc = resolve_with(&doc, &text, &universe, Some(&found));
    let sup = resolve_with(&doc, &text, &superset, None);
    comparisons += 2;
    if let (Ok(a), Ok(d), Ok(s)) = (&all, &disc, &sup) {
        if a != d || a != s {
            return o.with_verdict(Verdict::Fail {
                sig: "C17/discovered-set-changes-resolution".into(),
                msg: format!("resolution differs between (all referenced packages), (exactly the discovered ones {found:?}) and (a superset).\n--- all ---\n{a}\n--- discovered only ---\n{d}\n--- superset ---\n{s}\n--- text ---\n{text}"),
            });
        }
        if a.starts_with("bytes") {
            o = o.label("resolved-ok");
        }
    } else {
        return o.with_verdict(Verdict::Foreign(format!("resolution panicked (C14's obligation): {all:?} {disc:?}")));
    }
    let distinct: BTreeSet<_> = refs.iter().filter(|r| r.name != own).map(|r| (r.name.clone(), r.version.clone())).collect();
    o.nontrivial(distinct.len() >= 2 && refs.iter().any(|r| r.depth >= 1)).comparisons(comparisons)
}

#[derive(Clone, Debug, Serialize, Deserialize)]
pub struct FixtureCase {
    pub file: usize,
}

/// Every package present in a fixture directory, found by walking the directory (independent of discovery).
fn all_packages_of(dir: &std::path::Path) -> Pkgs {
    let mut keys: Vec<(String, Option<semver::Version>)> = vec![];
    fn walk(dir: &std::path::Path, prefix: &[String], keys: &mut Vec<(String, Option<semver::Version>)>) {
        let Ok(rd) = std::fs::read_dir(dir) else { return };
        let mut entries: Vec<_> = rd.filter_map(|e| e.ok()).collect();
        entries.sort_by_key(|e| e.path());
        for e in entries {
            let p = e.path();
            let stem = p.file_stem().and_then(|s| s.to_str()).unwrap_or("").to_string();
            if p.is_dir() {
                let has_wit = std::fs::read_dir(&p).map(|rd| rd.filter_map(|e| e.ok()).any(|e| e.path().extension().and_then(|x| x.to_str()) == Some("wit"))).unwrap_or(false);
                let mut next = prefix.to_vec();
                next.push(p.file_name().unwrap().to_str().unwrap().to_string());
                if has_wit && !prefix.is_empty() {
                    keys.push((next.join(":"), None));
                } else {
                    walk(&p, &next, keys);
                }
            } else if matches!(p.extension().and_then(|x| x.to_str()), Some("wat") | Some("wasm")) && !prefix.is_empty() {
                // `<ns>/<name>.wat` or `<ns>/<name>/<version>.wat`
                let full = p.file_name().unwrap().to_str().unwrap();
                let base = full.rsplit_once('.').map(|x| x.0).unwrap_or(full);
                if let Ok(v) = semver::Version::parse(base) {
                    keys.push((prefix.join(":"), Some(v)));
                } else {
                    let mut next = prefix.to_vec();
                    next.push(stem);
                    keys.push((next.join(":"), None));
                }
            }
        }
    }
    walk(dir, &[], &mut keys);
    let resolver = wac_resolver::FileSystemPackageResolver::new(dir, Default::default(), false);
    let mut out = vec![];
    for (name, version) in keys {
        let mut one = IndexMap::new();
        one.insert(wac_types::BorrowedPackageKey::from_name_and_version(&name, version.as_ref()), miette::SourceSpan::new(0.into(), 0));
        if let Ok(Ok(m)) = guarded(|| resolver.resolve(&one)) {
            for (_, bytes) in m {
                out.push((name.clone(), version.clone(), bytes));
            }
        }
    }
    out
}

fn check_fixture(c: &FixtureCase) -> Outcome {
    let f = &fixtures()[c.file];
    let p = std::path::Path::new(&f.path);
    let dir = p.parent().unwrap().join(p.file_stem().unwrap());
    let mut o = Outcome::pass().label("repo-fixture").rendered(json!({"file": f.path}));
    let Ok(doc) = Document::parse(&f.text) else { return o.with_verdict(Verdict::Foreign("fixture does not parse".into())) };
    let keys = match guarded(|| wac_resolver::packages(&doc)) {
        Ok(Ok(k)) => k,
        Ok(Err(_)) => return o.label("fixture-discovery-error"),
        Err(p) => return o.with_verdict(Verdict::Foreign(format!("discovery panicked: {p}"))),
    };
    let found: BTreeSet<(String, Option<String>)> = keys.keys().map(|k| (k.name.to_string(), k.version.map(|v| v.to_string()))).collect();
    let all_pkgs = all_packages_of(&dir);
    if all_pkgs.is_empty() {
        return o.label("fixture-without-packages");
    }
    let all = resolve_with(&doc, &f.text, &all_pkgs, None);
    let disc = resolve_with(&doc, &f.text, &all_pkgs, Some(&found));
    match (&all, &disc) {
        (Ok(a), Ok(d)) if a == d => {
            if a.starts_with("bytes") {
                o = o.label("resolved-ok");
            }
            o.nontrivial(found.len() >= 1).comparisons(1 + found.len() as u64)
        }
        (Ok(a), Ok(d)) => o.with_verdict(Verdict::Fail {
            sig: "C17/discovered-set-changes-resolution".into(),
            msg: format!("{}: resolution with every package of the fixture directory differs from resolution with exactly the discovered ones {found:?}\n--- all ---\n{a}\n--- discovered ---\n{d}", f.path),
        }),
        _ => o.with_verdict(Verdict::Foreign("resolution panicked".into())),
    }
}

/// One package referenced from two syntactic positions at equal or different versions: the expected key
/// set is known by construction.
fn check_two_references(c: &(usize, usize, usize, usize)) -> Outcome {
    let versions = [None, Some("1.0.0"), Some("2.0.0"), Some("1.0.0-rc.1")];
    let frag = |pos: usize, v: Option<&str>, k: usize| -> (String, bool) {
        let at = v.map(|v| format!("@{v}")).unwrap_or_default();
        match pos {
            0 => (format!("import a{k}: same:pkg/iface{at};\n"), false),
            1 => (format!("let x{k} = new same:pkg{at} {{ ... }};\n"), false),
            2 => (format!("interface i{k} {{ use same:pkg/iface{at}.{{t}}; }}\n"), false),
            3 => (format!("world w{k} {{ import same:pkg/iface{at}; }}\n"), false),
            4 => (format!("world v{k} {{ include same:pkg/w{at}; }}\n"), false),
            5 => (format!("export new same:pkg{at} {{ ... }} as \"e{k}\";\n"), false),
            _ => (format!(" targets same:pkg/w{at}"), true),
        }
    };
    let (p1, v1, p2, v2) = *c;
    let (f1, d1) = frag(p1, versions[v1], 1);
    let (f2, d2) = frag(p2, versions[v2], 2);
    if d1 && d2 {
        return Outcome::pass().label("skipped:two-targets");
    }
    let mut text = String::from("package test:comp");
    if d1 {
        text.push_str(&f1);
    }
    if d2 {
        text.push_str(&f2);
    }
    text.push_str(";\n");
    if !d1 {
        text.push_str(&f1);
    }
    if !d2 {
        text.push_str(&f2);
    }
    let want: BTreeSet<(String, Option<String>)> = [versions[v1], versions[v2]].iter().map(|v| ("same:pkg".to_string(), v.map(|v| v.to_string()))).collect();
    let o = Outcome::pass().nontrivial(v1 != v2).label("two-references-to-one-package").rendered(json!({"document": text}));
    let doc = match Document::parse(&text) {
        Ok(d) => d,
        Err(e) => return o.with_verdict(Verdict::GenInvalid(format!("{e:?}\n{text}"))),
    };
    match guarded(|| wac_resolver::packages(&doc).map(|k| k.keys().map(|k| (k.name.to_string(), k.version.map(|v| v.to_string()))).collect::<BTreeSet<_>>())) {
        Err(p) => o.with_verdict(Verdict::Foreign(format!("discovery panicked (C14's obligation): {p}"))),
        Ok(Err(e)) => o.with_verdict(Verdict::Fail { sig: "C17/discovery-error".into(), msg: format!("{e:?}\n{text}") }),
        Ok(Ok(found)) => {
            if found != want {
                return o.with_verdict(Verdict::Fail { sig: format!("C17/two-references:{}", if found.len() < want.len() { "key-not-discovered" } else { "unexpected-key" }), msg: format!("discovered {found:?}; the document references {want:?}\n{text}") });
            }
            o.comparisons(1)
        }
    }
}

pub fn run(tier: Tier, seed: u64, replay: Option<&std::path::Path>) -> i32 {
    let mut run = Run::new(
        "C17",
        tier,
        seed,
        "exploration",
        "grammar-generated documents whose package references (targets clause, import paths, use paths and world items inside interfaces/worlds/inline interfaces, includes, `new` at statement level and nested in named arguments and parentheses, export expressions; with and without versions; including references to the document's own package) are listed by the generator's own model. (1) every listed reference except the own package is among wac_resolver::packages(doc); the own package never is; a document that instantiates its own package is rejected with CannotInstantiateSelf. (2) metamorphic: resolving (and encoding) with a stub package for every listed reference, with exactly the discovered ones, and with a superset gives the same result (bytes or rendered diagnostic). Also every repository fixture: all packages found by walking its directory vs exactly the discovered ones. Non-trivial = >= 2 distinct foreign packages referenced, at least one from a nested position. Distinct by JSON hash.",
    );
    if let Some(p) = replay {
        let text = std::fs::read_to_string(p).unwrap_or_default();
        if text.contains("\"file\"") {
            run.replay_case::<FixtureCase, _>(p, check_fixture);
        } else {
            run.replay_case::<SynCase, _>(p, check_syn);
        }
        return run.finish();
    }
    let fx: Vec<FixtureCase> = (0..fixtures().len()).map(|file| FixtureCase { file }).collect();
    run.enumerate(&fx, check_fixture);
    let mut pairs = vec![];
    for p1 in 0..7 {
        for p2 in 0..7 {
            for v1 in 0..4 {
                for v2 in 0..4 {
                    pairs.push((p1, v1, p2, v2));
                }
            }
        }
    }
    run.enumerate(&pairs, check_two_references);
    let n = tier.pick(30_000, 400_000);
    // make the own package coincide with referenced packages now and then
    let strat = || {
        (syncase_strategy(6), any::<u8>()).prop_map(|(mut c, k)| {
            if k % 5 == 0 {
                let refs = references(&c.doc);
                if let Some(r) = refs.get(k as usize % refs.len().max(1)) {
                    // rename the document to the referenced package: exercises self references
                    let parts: Vec<Id> = r.name.split(':').map(|p| Id { name: p.trim_start_matches('%').to_string(), esc: p.starts_with('%') }).collect();
                    if parts.len() >= 2 {
                        c.doc.package.parts = parts;
                    }
                }
            }
            c
        })
    };
    run.explore(1, 16, n / 16, strat, check_syn);
    for l in ["ref-Targets", "ref-ImportPath", "ref-UsePath", "ref-WorldItemPath", "ref-Include", "ref-New", "ref-nested", "self-instantiation"] {
        run.floor(l, 20);
    }
    run.finish()
}
