//! C04 — WAC documents compose what LANGUAGE.md says they compose.
//!
//! A semantic generator builds programs over a generated library; a reference evaluator written from
//! LANGUAGE.md (O-eval) predicts either the diagnostic class or the wiring; the wiring is compared with
//! the section-level decoding (O-wire) of `Resolution::encode`'s output.

use crate::engine::*;
use crate::oracle::wire::{self, Kind, Origin, Wire};
use crate::props::c02::track_key;
use indexmap::IndexMap;
use proptest::prelude::*;
use serde::{Deserialize, Serialize};
use serde_json::json;
use std::collections::{BTreeMap, BTreeSet, HashMap};
use std::fmt::Write as _;
use std::rc::Rc;
use wac_graph::EncodeOptions;
use wac_parser::Document;
use wac_types::BorrowedPackageKey;

// ---------------------------------------------------------------------------------------------
// types of the universe

#[derive(Clone, Debug, PartialEq, Eq, PartialOrd, Ord)]
pub enum Ty {
    /// 0: `func()`, 1: `func(x: u32)`
    Func(u8),
    Inst(Vec<(String, Ty)>),
}

fn ia() -> Ty {
    Ty::Inst(vec![("f".into(), Ty::Func(0))])
}
fn ib() -> Ty {
    Ty::Inst(vec![("f".into(), Ty::Func(0)), ("g".into(), Ty::Func(0))])
}
fn ic() -> Ty {
    Ty::Inst(vec![("h".into(), Ty::Func(1))])
}

/// shape index -> type
fn shape(k: u8) -> Ty {
    match k % 5 {
        0 => Ty::Func(0),
        1 => Ty::Func(1),
        2 => ia(),
        3 => ib(),
        _ => ic(),
    }
}

/// a <: b (instances: at least the exports of b, each a subtype; functions: equal)
fn sub(a: &Ty, b: &Ty) -> bool {
    match (a, b) {
        (Ty::Func(x), Ty::Func(y)) => x == y,
        (Ty::Inst(x), Ty::Inst(y)) => y.iter().all(|(n, t)| x.iter().any(|(m, u)| m == n && sub(u, t))),
        _ => false,
    }
}

/// can two requirements on one implicit import be merged?
fn mergeable(a: &Ty, b: &Ty) -> bool {
    match (a, b) {
        (Ty::Func(x), Ty::Func(y)) => x == y,
        (Ty::Inst(x), Ty::Inst(y)) => x.iter().all(|(n, t)| y.iter().all(|(m, u)| m != n || mergeable(t, u))),
        _ => false,
    }
}

const PLAIN: &[&str] = &["f", "g", "baz", "qux", "foo-bar", "h", "bar"];
const PATHS: &[&str] = &["x:y/baz", "x:y/qux", "p:q/baz", "v:w/baz@1.2.0", "v:w/baz@1.0.0", "x:y/foo-bar"];
/// interfaces that exist in WIT packages of the library: path -> type
fn wit_iface(path: &str) -> Option<Ty> {
    Some(match path {
        "x:y/baz" => ia(),
        "x:y/qux" => ib(),
        "x:y/foo-bar" => ia(),
        "p:q/baz" => ic(),
        "v:w/baz@1.2.0" => ib(),
        "v:w/baz@1.0.0" => ia(),
        _ => return None,
    })
}

#[derive(Clone, Debug, Serialize, Deserialize, PartialEq)]
pub struct CompSpec {
    /// (name choice, shape choice)
    pub imports: Vec<(u8, u8)>,
    pub exports: Vec<(u8, u8)>,
}

#[derive(Clone, Debug)]
pub struct Comp {
    pub name: String,
    pub imports: Vec<(String, Ty)>,
    pub exports: Vec<(String, Ty)>,
}

fn extern_name(choice: u8, ty: &Ty) -> String {
    // path names only for instances
    let n = PLAIN.len() + PATHS.len();
    let k = choice as usize % n;
    if k < PLAIN.len() || matches!(ty, Ty::Func(_)) {
        PLAIN[k % PLAIN.len()].to_string()
    } else {
        PATHS[k - PLAIN.len()].to_string()
    }
}

fn build_comps(specs: &[CompSpec]) -> Vec<Comp> {
    specs
        .iter()
        .enumerate()
        .map(|(i, s)| {
            let mut imports: Vec<(String, Ty)> = vec![];
            for (n, k) in &s.imports {
                let ty = shape(*k);
                let name = extern_name(*n, &ty);
                // one import per semver track (two versions of one interface in one world are merged by most producers)
                if !imports.iter().any(|(m, _)| track_key(m) == track_key(&name)) {
                    imports.push((name, ty));
                }
            }
            let mut exports: Vec<(String, Ty)> = vec![];
            for (n, k) in &s.exports {
                let ty = shape(*k);
                let name = extern_name(*n, &ty);
                if !exports.iter().any(|(m, _)| track_key(m) == track_key(&name)) {
                    exports.push((name, ty));
                }
            }
            Comp { name: format!("t:c{i}"), imports, exports }
        })
        .collect()
}

fn wat_type(t: &Ty) -> String {
    match t {
        Ty::Func(0) => "(func)".into(),
        Ty::Func(_) => "(func (param \"x\" u32))".into(),
        Ty::Inst(es) => format!("(instance {})", es.iter().map(|(n, t)| format!("(export \"{n}\" {})", wat_type(t))).collect::<Vec<_>>().join(" ")),
    }
}

fn comp_wat(c: &Comp) -> String {
    let mut s = String::from("(component\n");
    for (n, t) in &c.imports {
        let _ = writeln!(s, "  (import \"{n}\" {})", wat_type(t));
    }
    s.push_str("  (core module $m (func (export \"f0\")) (func (export \"f1\") (param i32)))\n  (core instance $i (instantiate $m))\n  (func $f0 (canon lift (core func $i \"f0\")))\n  (func $f1 (param \"x\" u32) (canon lift (core func $i \"f1\")))\n");
    for (k, (n, t)) in c.exports.iter().enumerate() {
        match t {
            Ty::Func(a) => {
                let _ = writeln!(s, "  (export \"{n}\" (func $f{}))", a.min(&1));
            }
            Ty::Inst(es) => {
                let _ = writeln!(s, "  (instance $e{k} {})", es.iter().map(|(m, u)| format!("(export \"{m}\" (func $f{}))", if *u == Ty::Func(0) { 0 } else { 1 })).collect::<Vec<_>>().join(" "));
                let _ = writeln!(s, "  (export \"{n}\" (instance $e{k}))");
            }
        }
    }
    s.push_str(")\n");
    s
}

pub type Pkgs = Vec<(String, Option<semver::Version>, Vec<u8>)>;

fn wit_packages() -> &'static Pkgs {
    static P: std::sync::OnceLock<Pkgs> = std::sync::OnceLock::new();
    P.get_or_init(|| {
        let texts: &[(&str, Option<&str>, &str)] = &[
            ("x:y", None, "package x:y;\ninterface baz { f: func(); }\ninterface qux { f: func(); g: func(); }\ninterface foo-bar { f: func(); }\n"),
            ("p:q", None, "package p:q;\ninterface baz { h: func(x: u32); }\n"),
            ("v:w", Some("1.2.0"), "package v:w@1.2.0;\ninterface baz { f: func(); g: func(); }\n"),
            ("v:w", Some("1.0.0"), "package v:w@1.0.0;\ninterface baz { f: func(); }\n"),
        ];
        texts
            .iter()
            .map(|(n, v, t)| {
                let mut resolve = wit_parser::Resolve::default();
                let id = resolve.push_str("p.wit", t).expect("library WIT parses");
                (n.to_string(), v.map(|v| semver::Version::parse(v).unwrap()), wit_component::encode(&resolve, id).expect("library WIT encodes"))
            })
            .collect()
    })
}

// ---------------------------------------------------------------------------------------------
// programs

#[derive(Clone, Debug, PartialEq)]
pub enum ImpTy {
    Shape(u8),
    Path(String),
}

#[derive(Clone, Debug, PartialEq)]
pub enum ArgName {
    Ident(String),
    Str(String),
}

#[derive(Clone, Debug, PartialEq)]
pub enum Arg {
    Inferred(String),
    Named(ArgName, Expr),
    Spread(String),
    Fill,
}

#[derive(Clone, Debug, PartialEq)]
pub enum Expr {
    New(String, Vec<Arg>),
    Ident(String),
    Access(Box<Expr>, String),
    Named(Box<Expr>, String),
    Paren(Box<Expr>),
}

#[derive(Clone, Debug, PartialEq)]
pub enum ExpOpt {
    None,
    As(String),
    Spread,
}

#[derive(Clone, Debug, PartialEq)]
pub enum Stmt {
    Import { id: String, as_name: Option<String>, ty: ImpTy },
    Let(String, Expr),
    Export(Expr, ExpOpt),
}

fn render_expr(e: &Expr, out: &mut String) {
    match e {
        Expr::New(p, args) => {
            let _ = write!(out, "new {p} {{");
            for (i, a) in args.iter().enumerate() {
                out.push_str(if i == 0 { " " } else { ", " });
                match a {
                    Arg::Inferred(n) => out.push_str(n),
                    Arg::Named(ArgName::Ident(n), e) => {
                        let _ = write!(out, "{n}: ");
                        render_expr(e, out);
                    }
                    Arg::Named(ArgName::Str(n), e) => {
                        let _ = write!(out, "\"{n}\": ");
                        render_expr(e, out);
                    }
                    Arg::Spread(n) => {
                        let _ = write!(out, "...{n}");
                    }
                    Arg::Fill => out.push_str("..."),
                }
            }
            out.push_str(if args.is_empty() { "}" } else { " }" });
        }
        Expr::Ident(n) => out.push_str(n),
        Expr::Access(e, n) => {
            render_expr(e, out);
            let _ = write!(out, ".{n}");
        }
        Expr::Named(e, n) => {
            render_expr(e, out);
            let _ = write!(out, "[\"{n}\"]");
        }
        Expr::Paren(e) => {
            out.push('(');
            render_expr(e, out);
            out.push(')');
        }
    }
}

pub fn render(prog: &[Stmt]) -> String {
    let mut out = String::from("package test:comp;\n\n");
    for s in prog {
        match s {
            Stmt::Import { id, as_name, ty } => {
                let _ = write!(out, "import {id}");
                if let Some(n) = as_name {
                    let _ = write!(out, " as \"{n}\"");
                }
                out.push_str(": ");
                match ty {
                    ImpTy::Path(p) => out.push_str(p),
                    ImpTy::Shape(k) => out.push_str(match k % 5 {
                        0 => "func()",
                        1 => "func(x: u32)",
                        2 => "interface { f: func(); }",
                        3 => "interface { f: func(); g: func(); }",
                        _ => "interface { h: func(x: u32); }",
                    }),
                }
                out.push_str(";\n");
            }
            Stmt::Let(id, e) => {
                let _ = write!(out, "let {id} = ");
                render_expr(e, &mut out);
                out.push_str(";\n");
            }
            Stmt::Export(e, opt) => {
                out.push_str("export ");
                render_expr(e, &mut out);
                match opt {
                    ExpOpt::None => {}
                    ExpOpt::As(n) => {
                        let _ = write!(out, " as \"{n}\"");
                    }
                    ExpOpt::Spread => out.push_str("..."),
                }
                out.push_str(";\n");
            }
        }
    }
    out
}

// ---------------------------------------------------------------------------------------------
// O-eval: the reference evaluator (LANGUAGE.md)

#[derive(Clone, Debug)]
pub enum From_ {
    Import(String),
    Inst(usize),
    Alias(Rc<Val>, String),
}

#[derive(Clone, Debug)]
pub struct Val {
    pub ty: Ty,
    /// the package path associated with an instance, if any
    pub id: Option<String>,
    pub from: From_,
}

#[derive(Clone, Debug)]
pub struct Inst {
    pub comp: usize,
    pub args: BTreeMap<String, Val>,
    pub fill: bool,
}

#[derive(Default, Debug)]
pub struct Model {
    pub insts: Vec<Inst>,
    pub imports: Vec<(String, Ty)>,
    /// export name -> value (and alternative names accepted under a tolerance)
    pub exports: Vec<(Vec<String>, Val)>,
    pub labels: BTreeSet<&'static str>,
}

/// A diagnostic class: the name of the `resolution::Error` variant.
type Fault = &'static str;

struct Eval<'a> {
    comps: &'a [Comp],
    env: Vec<(String, Val)>,
    m: Model,
    /// faults of the statement being evaluated
    faults: Vec<Fault>,
    /// the outcome of this statement is one the reference leaves open
    open: bool,
}

fn last_segment(path: &str) -> Option<&str> {
    let i = path.rfind('/')?;
    let s = &path[i + 1..];
    Some(s.split('@').next().unwrap())
}

/// "exactly one import/export that has a path which ends with the name" -> that path
fn unique_suffix<'b>(name: &str, externs: &'b [(String, Ty)]) -> Option<&'b str> {
    let mut it = externs.iter().filter(|(n, _)| last_segment(n) == Some(name));
    let first = it.next()?;
    if it.next().is_some() {
        return None;
    }
    Some(first.0.as_str())
}

impl<'a> Eval<'a> {
    fn lookup(&mut self, n: &str) -> Option<Val> {
        match self.env.iter().find(|(m, _)| m == n) {
            Some((_, v)) => Some(v.clone()),
            None => {
                self.faults.push("UndefinedName");
                None
            }
        }
    }

    fn alias(&self, v: &Val, name: &str) -> Option<Val> {
        let Ty::Inst(es) = &v.ty else { return None };
        let (_, t) = es.iter().find(|(n, _)| n == name)?;
        Some(Val { ty: t.clone(), id: if matches!(t, Ty::Inst(_)) && name.contains(':') { Some(name.to_string()) } else { None }, from: From_::Alias(Rc::new(v.clone()), name.to_string()) })
    }

    fn expr(&mut self, e: &Expr) -> Option<Val> {
        match e {
            Expr::Ident(n) => self.lookup(n),
            Expr::Paren(e) => self.expr(e),
            Expr::Access(e, n) => {
                let v = self.expr(e)?;
                let Ty::Inst(es) = &v.ty else {
                    self.faults.push("NotAnInstance");
                    return None;
                };
                // T3: literal name and a unique path suffix both present
                if es.iter().any(|(m, _)| m == n) && unique_suffix(n, es).is_some() {
                    self.m.labels.insert("T3-access");
                }
                let name = if es.iter().any(|(m, _)| m == n) { n.clone() } else { unique_suffix(n, es).unwrap_or(n).to_string() };
                if unique_suffix(n, es).is_some() {
                    self.m.labels.insert("access-by-path-suffix");
                }
                match self.alias(&v, &name) {
                    Some(a) => Some(a),
                    None => {
                        self.faults.push("MissingInstanceExport");
                        None
                    }
                }
            }
            Expr::Named(e, n) => {
                let v = self.expr(e)?;
                if !matches!(v.ty, Ty::Inst(_)) {
                    self.faults.push("NotAnInstance");
                    return None;
                }
                match self.alias(&v, n) {
                    Some(a) => Some(a),
                    None => {
                        self.faults.push("MissingInstanceExport");
                        None
                    }
                }
            }
            Expr::New(pkg, args) => self.new(pkg, args),
        }
    }

    fn new(&mut self, pkg: &str, args: &[Arg]) -> Option<Val> {
        let Some(ci) = self.comps.iter().position(|c| c.name == pkg) else {
            self.faults.push("UnknownPackage");
            return None;
        };
        let comp = &self.comps[ci];
        let mut bound: IndexMap<String, Val> = IndexMap::new();
        let mut ok = true;
        let mut fill = false;
        for (i, a) in args.iter().enumerate() {
            let (name, val) = match a {
                Arg::Fill => {
                    if i != args.len() - 1 {
                        self.faults.push("FillArgumentNotLast");
                        ok = false;
                    }
                    fill = true;
                    continue;
                }
                Arg::Spread(_) => continue,
                Arg::Inferred(loc) => {
                    let Some(v) = self.lookup(loc) else {
                        ok = false;
                        continue;
                    };
                    // the four rules, in order of precedence
                    let mut candidates: Vec<(&'static str, String)> = vec![];
                    if let (Ty::Inst(_), Some(id)) = (&v.ty, &v.id) {
                        if comp.imports.iter().any(|(n, _)| n == id) {
                            candidates.push(("rule1", id.clone()));
                        }
                    }
                    match &v.from {
                        From_::Import(n) | From_::Alias(_, n) => {
                            if comp.imports.iter().any(|(m, _)| m == n) {
                                candidates.push(("rule2", n.clone()));
                            }
                        }
                        From_::Inst(_) => {}
                    }
                    if let Some(p) = unique_suffix(loc, &comp.imports) {
                        if comp.imports.iter().any(|(m, _)| m == loc) {
                            // T3: the reference states the suffix rule first; the literal name also applies
                            self.m.labels.insert("T3-inferred");
                            self.open = true;
                        }
                        candidates.push(("rule3", p.to_string()));
                    }
                    candidates.push(("rule4", loc.clone()));
                    let distinct: BTreeSet<&String> = candidates.iter().map(|c| &c.1).collect();
                    if distinct.len() >= 2 {
                        self.m.labels.insert("inference-precedence-matters");
                    }
                    self.m.labels.insert(match candidates[0].0 {
                        "rule1" => "inferred-by-rule1",
                        "rule2" => "inferred-by-rule2",
                        "rule3" => "inferred-by-rule3",
                        _ => "inferred-by-rule4",
                    });
                    (candidates[0].1.clone(), v)
                }
                Arg::Named(n, e) => {
                    let Some(v) = self.expr(e) else {
                        ok = false;
                        continue;
                    };
                    let name = match n {
                        ArgName::Str(s) => s.clone(),
                        ArgName::Ident(id) => match unique_suffix(id, &comp.imports) {
                            Some(p) => {
                                if comp.imports.iter().any(|(m, _)| m == id) {
                                    self.m.labels.insert("T3-named");
                                    self.open = true;
                                }
                                self.m.labels.insert("named-by-path-suffix");
                                p.to_string()
                            }
                            None => id.clone(),
                        },
                    };
                    (name, v)
                }
            };
            if bound.insert(name, val).is_some() {
                self.faults.push("DuplicateInstantiationArg");
                ok = false;
            }
        }
        // spreads apply after inferred and named arguments, in order
        for a in args {
            if let Arg::Spread(loc) = a {
                let Some(v) = self.lookup(loc) else {
                    ok = false;
                    continue;
                };
                if !matches!(v.ty, Ty::Inst(_)) {
                    self.faults.push("NotAnInstance");
                    ok = false;
                    continue;
                }
                let mut any = false;
                for (n, _) in &comp.imports {
                    if bound.contains_key(n) {
                        continue;
                    }
                    if let Some(al) = self.alias(&v, n) {
                        bound.insert(n.clone(), al);
                        any = true;
                    }
                }
                if any {
                    self.m.labels.insert("spread-argument-bound");
                    if args.iter().any(|x| matches!(x, Arg::Named(..) | Arg::Inferred(_))) {
                        self.m.labels.insert("spread-with-explicit-arguments");
                    }
                } else {
                    self.faults.push("SpreadInstantiationNoMatch");
                    ok = false;
                }
            }
        }
        // every argument names an import of the component and fits its type
        for (n, v) in &bound {
            match comp.imports.iter().find(|(m, _)| m == n) {
                None => {
                    self.faults.push("MissingComponentImport");
                    ok = false;
                }
                Some((_, t)) => {
                    if !sub(&v.ty, t) {
                        self.faults.push("MismatchedInstantiationArg");
                        ok = false;
                    }
                }
            }
        }
        if !fill && comp.imports.iter().any(|(n, _)| !bound.contains_key(n)) {
            self.faults.push("MissingInstantiationArg");
            ok = false;
        }
        if !ok {
            return None;
        }
        if fill && comp.imports.iter().any(|(n, _)| !bound.contains_key(n)) {
            self.m.labels.insert("implicit-import");
        }
        let idx = self.m.insts.len();
        self.m.insts.push(Inst { comp: ci, args: bound.into_iter().collect(), fill });
        Some(Val { ty: Ty::Inst(comp.exports.clone()), id: None, from: From_::Inst(idx) })
    }

    fn bind(&mut self, id: &str, v: Val) {
        if self.env.iter().any(|(n, _)| n == id) {
            self.faults.push("DuplicateName");
            return;
        }
        self.env.push((id.to_string(), v));
    }

    fn export(&mut self, names: Vec<String>, v: Val) {
        let free: Vec<String> = names.iter().filter(|n| !self.m.exports.iter().any(|(ns, _)| ns.contains(n))).cloned().collect();
        if free.is_empty() {
            self.faults.push("DuplicateExternName");
            return;
        }
        if free.len() < names.len() {
            // which of the acceptable names is meant decides whether this is a duplicate
            self.open = true;
        }
        self.m.exports.push((free, v));
    }

    fn stmt(&mut self, s: &Stmt) {
        match s {
            Stmt::Import { id, as_name, ty } => {
                let (t, vid) = match ty {
                    ImpTy::Shape(k) => (shape(*k), None),
                    ImpTy::Path(p) => match wit_iface(p) {
                        Some(t) => (t, Some(p.clone())),
                        None => {
                            self.faults.push("UnknownPackage");
                            self.faults.push("PackageMissingExport");
                            self.faults.push("PackageResolutionFailure");
                            return;
                        }
                    },
                };
                let name = match (as_name, ty) {
                    (Some(n), _) => n.clone(),
                    (None, ImpTy::Path(p)) => p.clone(),
                    (None, _) => id.clone(),
                };
                if self.m.imports.iter().any(|(n, _)| *n == name) {
                    self.faults.push("DuplicateExternName");
                }
                self.bind(id, Val { ty: t.clone(), id: vid, from: From_::Import(name.clone()) });
                if self.faults.is_empty() {
                    self.m.imports.push((name, t));
                }
            }
            Stmt::Let(id, e) => {
                if let Some(v) = self.expr(e) {
                    self.bind(id, v);
                }
            }
            Stmt::Export(e, opt) => {
                let Some(v) = self.expr(e) else { return };
                match opt {
                    ExpOpt::As(n) => self.export(vec![n.clone()], v),
                    ExpOpt::None => {
                        // mirrors the first two rules of argument inference: an instance with an associated path
                        // is exported under the path, otherwise the name that was imported / accessed is used
                        let mut names = vec![];
                        if let (Ty::Inst(_), Some(id)) = (&v.ty, &v.id) {
                            names.push(id.clone());
                        } else if let From_::Import(n) | From_::Alias(_, n) = &v.from {
                            names.push(n.clone());
                        }
                        if let (Some(id), From_::Import(n) | From_::Alias(_, n)) = (&v.id, &v.from) {
                            if id != n && matches!(v.ty, Ty::Inst(_)) {
                                self.m.labels.insert("export-name-path-vs-extern-name");
                            }
                        }
                        if names.is_empty() {
                            self.faults.push("ExportRequiresAs");
                            return;
                        }
                        self.export(names, v);
                    }
                    ExpOpt::Spread => {
                        let Ty::Inst(es) = &v.ty else {
                            self.faults.push("NotAnInstance");
                            return;
                        };
                        let mut any = false;
                        for (n, _) in es.clone() {
                            if self.m.exports.iter().any(|(ns, _)| ns.contains(&n)) {
                                self.m.labels.insert("spread-export-skips-existing");
                                continue;
                            }
                            let a = self.alias(&v, &n).unwrap();
                            self.m.exports.push((vec![n], a));
                            any = true;
                        }
                        if !any {
                            self.faults.push("SpreadExportNoEffect");
                        } else {
                            self.m.labels.insert("spread-export");
                        }
                    }
                }
            }
        }
    }
}

pub enum Expected {
    Ok(Model),
    /// the first faulty statement and the diagnostic classes that apply to it
    Err(usize, Vec<Fault>, bool),
}

pub fn evaluate(comps: &[Comp], prog: &[Stmt]) -> Expected {
    let mut ev = Eval { comps, env: vec![], m: Model::default(), faults: vec![], open: false };
    for (i, s) in prog.iter().enumerate() {
        ev.stmt(s);
        if !ev.faults.is_empty() {
            return Expected::Err(i, ev.faults, ev.open);
        }
    }
    if ev.open {
        ev.m.labels.insert("T3");
    }
    Expected::Ok(ev.m)
}

// ---------------------------------------------------------------------------------------------
// signatures: model side and wire side

fn val_sig(m: &Model, comps: &[Comp], idents: &[String], v: &Val) -> String {
    match &v.from {
        From_::Import(n) => format!("import({})", track_key(n)),
        From_::Alias(of, n) => format!("alias({},{n:?})", val_sig(m, comps, idents, of)),
        From_::Inst(i) => inst_sig(m, comps, idents, *i),
    }
}

fn inst_sig(m: &Model, comps: &[Comp], idents: &[String], i: usize) -> String {
    let inst = &m.insts[i];
    let mut args: BTreeMap<String, String> = BTreeMap::new();
    for (n, _) in &comps[inst.comp].imports {
        let s = match inst.args.get(n) {
            Some(v) => val_sig(m, comps, idents, v),
            None => format!("import({})", track_key(n)),
        };
        args.insert(n.clone(), s);
    }
    format!("new {}{{{}}}", idents[inst.comp], args.iter().map(|(k, v)| format!("{k}={v}")).collect::<Vec<_>>().join(";"))
}

struct WSigs<'a> {
    w: &'a Wire,
    comp_ident: BTreeMap<u32, String>,
    memo: HashMap<(Kind, u32), String>,
}

impl<'a> WSigs<'a> {
    fn sig(&mut self, k: Kind, i: u32, depth: usize) -> String {
        let (base, origin) = self.w.resolve(k, i);
        if let Some(s) = self.memo.get(&(k, base)) {
            return s.clone();
        }
        if depth > 64 {
            return "<deep>".into();
        }
        let s = match origin.cloned() {
            None => format!("<dangling {k:?} {i}>"),
            Some(Origin::Import { name }) => format!("import({})", track_key(&name)),
            Some(Origin::Alias { instance, name }) => format!("alias({},{name:?})", self.sig(Kind::Instance, instance, depth + 1)),
            Some(Origin::Instantiate { component, args }) => {
                let ident = self.comp_ident.get(&self.w.resolve(Kind::Component, component).0).cloned().unwrap_or_else(|| format!("<component {component}>"));
                let mut m = BTreeMap::new();
                for (a, kind, idx) in args {
                    m.insert(a, self.sig(kind, idx, depth + 1));
                }
                format!("new {ident}{{{}}}", m.iter().map(|(k, v)| format!("{k}={v}")).collect::<Vec<_>>().join(";"))
            }
            Some(o) => format!("<{o:?}>"),
        };
        self.memo.insert((k, base), s.clone());
        s
    }
}

// ---------------------------------------------------------------------------------------------
// the case: library + program built from a choice string by a semantic generator

#[derive(Clone, Debug, Serialize, Deserialize)]
pub struct Case {
    pub comps: Vec<CompSpec>,
    pub choices: Vec<u16>,
    /// single-fault variant to apply to the generated program (0 = none)
    #[serde(default)]
    pub fault: u16,
    #[serde(default)]
    pub fault_at: u16,
}

struct Src<'a> {
    c: &'a [u16],
    i: usize,
}

impl<'a> Src<'a> {
    fn next(&mut self) -> u16 {
        // an exhausted source answers "the likely thing" (chance(p) is false below 75, picks land late)
        let v = self.c.get(self.i).copied().unwrap_or(0xC000);
        self.i += 1;
        v
    }
    fn pick(&mut self, n: usize) -> usize {
        if n == 0 {
            return 0;
        }
        (self.next() as usize * n) >> 16
    }
    fn chance(&mut self, percent: u32) -> bool {
        (self.next() as u32 * 100) >> 16 < percent
    }
    fn done(&self) -> bool {
        self.i >= self.c.len()
    }
}

const LOCALS: &[&str] = &["a", "b", "c", "d", "e", "baz", "qux", "f", "g", "foo-bar", "h", "k", "m", "n", "bar", "az"];
const EXPORT_NAMES: &[&str] = &["out", "f", "g", "baz", "x:y/baz", "run", "v:w/baz@1.2.0", "foo-bar"];

/// What the generator knows about a local: its type (so that it can mostly produce well-typed programs).
struct Gen<'a> {
    comps: &'a [Comp],
    src: Src<'a>,
    env: Vec<(String, Ty)>,
}

impl<'a> Gen<'a> {
    fn fresh(&mut self) -> String {
        // prefer an unused name; sometimes reuse one (duplicate name fault)
        let free: Vec<&&str> = LOCALS.iter().filter(|n| !self.env.iter().any(|(m, _)| m == **n)).collect();
        if free.is_empty() || self.src.chance(3) {
            return LOCALS[self.src.pick(LOCALS.len())].to_string();
        }
        // names that some component imports under (plain name or last path segment) make inference rules 3 and 4 apply
        if self.src.chance(45) {
            let mut hot: Vec<String> = vec![];
            for c in self.comps {
                for (n, _) in &c.imports {
                    let l = last_segment(n).unwrap_or(n).to_string();
                    if free.iter().any(|f| ***f == l) && !hot.contains(&l) {
                        hot.push(l);
                    }
                }
            }
            if !hot.is_empty() {
                return hot[self.src.pick(hot.len())].clone();
            }
        }
        free[self.src.pick(free.len())].to_string()
    }

    /// an expression of (preferably) a type that fits `want`
    fn value(&mut self, want: Option<&Ty>, depth: usize) -> (Expr, Option<Ty>) {
        // candidates from the environment: locals and one-step accesses
        let mut cands: Vec<(Expr, Ty)> = vec![];
        for (n, t) in &self.env {
            cands.push((Expr::Ident(n.clone()), t.clone()));
            if let Ty::Inst(es) = t {
                for (en, et) in es {
                    let access = match last_segment(en) {
                        Some(seg) if !es.iter().any(|(m, _)| m == seg) && es.iter().filter(|(m, _)| last_segment(m) == Some(seg)).count() == 1 => Expr::Access(Box::new(Expr::Ident(n.clone())), seg.to_string()),
                        None if !en.contains(':') => Expr::Access(Box::new(Expr::Ident(n.clone())), en.clone()),
                        _ => Expr::Named(Box::new(Expr::Ident(n.clone())), en.clone()),
                    };
                    cands.push((access, et.clone()));
                    if en.contains('/') || !en.contains(':') {
                        cands.push((Expr::Named(Box::new(Expr::Ident(n.clone())), en.clone()), et.clone()));
                    }
                }
            }
        }
        let fitting: Vec<&(Expr, Ty)> = match want {
            Some(w) => cands.iter().filter(|(_, t)| sub(t, w)).collect(),
            None => cands.iter().collect(),
        };
        let roll = self.src.pick(100);
        if depth < 2 && (roll < 12 || (fitting.is_empty() && roll < 85)) && !self.comps.is_empty() {
            // a nested `new`
            let e = self.new_expr(depth + 1, want);
            let t = if let Expr::New(p, _) = &e { self.comps.iter().find(|c| &c.name == p).map(|c| Ty::Inst(c.exports.clone())) } else { None };
            return (e, t);
        }
        if !fitting.is_empty() && roll < 92 {
            let (e, t) = fitting[self.src.pick(fitting.len())].clone();
            let e = if self.src.chance(8) { Expr::Paren(Box::new(e)) } else { e };
            return (e, Some(t));
        }
        if !cands.is_empty() && roll < 97 {
            let (e, t) = cands[self.src.pick(cands.len())].clone();
            return (e, Some(t));
        }
        // something arbitrary (possibly undefined)
        match self.src.pick(3) {
            0 => (Expr::Ident(LOCALS[self.src.pick(LOCALS.len())].to_string()), None),
            1 => (Expr::Access(Box::new(Expr::Ident(LOCALS[self.src.pick(LOCALS.len())].to_string())), PLAIN[self.src.pick(PLAIN.len())].to_string()), None),
            _ => (Expr::Named(Box::new(Expr::Ident(LOCALS[self.src.pick(LOCALS.len())].to_string())), PATHS[self.src.pick(PATHS.len())].to_string()), None),
        }
    }

    fn new_expr(&mut self, depth: usize, want: Option<&Ty>) -> Expr {
        // prefer a component whose instance fits what is wanted
        let fits: Vec<usize> = (0..self.comps.len()).filter(|i| want.map(|w| sub(&Ty::Inst(self.comps[*i].exports.clone()), w)).unwrap_or(true)).collect();
        let ci = if !fits.is_empty() && self.src.chance(85) { fits[self.src.pick(fits.len())] } else { self.src.pick(self.comps.len()) };
        if self.src.chance(2) {
            return Expr::New("t:zz".into(), vec![Arg::Fill]);
        }
        let comp = self.comps[ci].clone();
        let mut args: Vec<Arg> = vec![];
        let mut left: Vec<(String, Ty)> = vec![];
        for (n, t) in &comp.imports {
            match self.src.pick(100) {
                0..=29 => {
                    // named argument
                    let (e, et) = self.value(Some(t), depth);
                    if !et.as_ref().map(|x| sub(x, t)).unwrap_or(false) && self.src.chance(80) {
                        // nothing suitable in scope: leave it to a spread or the fill
                        left.push((n.clone(), t.clone()));
                        continue;
                    }
                    let name = match last_segment(n) {
                        // a quoted name is exact: the last segment in quotes names no import
                        Some(seg) if self.src.chance(6) => ArgName::Str(seg.to_string()),
                        Some(seg) if self.src.chance(60) => ArgName::Ident(seg.to_string()),
                        None if !n.contains(':') && self.src.chance(70) => ArgName::Ident(n.clone()),
                        _ => ArgName::Str(n.clone()),
                    };
                    args.push(Arg::Named(name, e));
                }
                30..=64 => {
                    // inferred argument: a local that fits, preferably one whose inference leads here
                    let locals: Vec<(String, Ty)> = self.env.iter().filter(|(_, lt)| sub(lt, t)).cloned().collect();
                    let by_name: Vec<&(String, Ty)> = locals.iter().filter(|(ln, _)| ln == n || last_segment(n) == Some(ln.as_str())).collect();
                    if !by_name.is_empty() && self.src.chance(70) {
                        args.push(Arg::Inferred(by_name[self.src.pick(by_name.len())].0.clone()));
                    } else if !locals.is_empty() {
                        args.push(Arg::Inferred(locals[self.src.pick(locals.len())].0.clone()));
                    } else {
                        left.push((n.clone(), t.clone()));
                    }
                }
                _ => left.push((n.clone(), t.clone())),
            }
        }
        // spreads: instances in scope that export something still missing
        let mut spreads = 0;
        while !left.is_empty() && spreads < 2 && self.src.chance(70) {
            let insts: Vec<(String, Vec<(String, Ty)>)> = self.env.iter().filter_map(|(n, t)| if let Ty::Inst(es) = t { Some((n.clone(), es.clone())) } else { None }).collect();
            let useful: Vec<&(String, Vec<(String, Ty)>)> = insts.iter().filter(|(_, es)| left.iter().any(|(n, t)| es.iter().any(|(m, u)| m == n && sub(u, t)))).collect();
            let pick = if !useful.is_empty() && self.src.chance(90) {
                Some(useful[self.src.pick(useful.len())].clone())
            } else if !insts.is_empty() && self.src.chance(30) {
                Some(insts[self.src.pick(insts.len())].clone())
            } else {
                None
            };
            let Some((n, es)) = pick else { break };
            left.retain(|(m, _)| !es.iter().any(|(e, _)| e == m));
            // spreads may be written anywhere among the arguments
            let at = self.src.pick(args.len() + 1);
            args.insert(at, Arg::Spread(n));
            spreads += 1;
        }
        if self.src.chance(3) {
            // an argument the component does not import
            let (e, _) = self.value(None, 2);
            args.push(Arg::Named(ArgName::Str("nope".into()), e));
        }
        if !left.is_empty() || self.src.chance(15) {
            if self.src.chance(96) {
                args.push(Arg::Fill);
            } else if self.src.chance(50) {
                args.insert(0, Arg::Fill);
            }
        }
        if self.src.chance(2) && !args.is_empty() {
            let k = self.src.pick(args.len());
            let dup = args[k].clone();
            args.push(dup);
        }
        Expr::New(comp.name.clone(), args)
    }

    fn program(&mut self) -> Vec<Stmt> {
        let mut prog = vec![];
        let mut exported = 0;
        while !self.src.done() && prog.len() < 9 {
            let roll = self.src.pick(100);
            // start with things that bind names
            let roll = if self.env.len() < 2 && roll >= 70 { roll - 70 } else { roll };
            match roll {
                0..=24 => {
                    let id = self.fresh();
                    let ty = if self.src.chance(45) { ImpTy::Path(PATHS[self.src.pick(PATHS.len())].to_string()) } else { ImpTy::Shape(self.src.pick(5) as u8) };
                    let as_name = if self.src.chance(30) { Some(if self.src.chance(50) { PLAIN[self.src.pick(PLAIN.len())].to_string() } else { PATHS[self.src.pick(PATHS.len())].to_string() }) } else { None };
                    let t = match &ty {
                        ImpTy::Shape(k) => shape(*k),
                        ImpTy::Path(p) => wit_iface(p).unwrap(),
                    };
                    if !self.env.iter().any(|(n, _)| *n == id) {
                        self.env.push((id.clone(), t));
                    }
                    prog.push(Stmt::Import { id, as_name, ty });
                }
                25..=69 => {
                    let id = self.fresh();
                    let (e, t) = if self.src.chance(70) {
                        let e = self.new_expr(0, None);
                        let t = if let Expr::New(p, _) = &e { self.comps.iter().find(|c| &c.name == p).map(|c| Ty::Inst(c.exports.clone())) } else { None };
                        (e, t)
                    } else {
                        self.value(None, 0)
                    };
                    if let Some(t) = t {
                        if !self.env.iter().any(|(n, _)| *n == id) {
                            self.env.push((id.clone(), t));
                        }
                    }
                    prog.push(Stmt::Let(id, e));
                }
                _ => {
                    let (e, t) = self.value(None, 0);
                    let opt = match self.src.pick(100) {
                        0..=39 => ExpOpt::None,
                        40..=69 => ExpOpt::As(if self.src.chance(60) { format!("out{exported}") } else { EXPORT_NAMES[self.src.pick(EXPORT_NAMES.len())].to_string() }),
                        _ => {
                            if matches!(t, Some(Ty::Inst(_))) || self.src.chance(10) {
                                ExpOpt::Spread
                            } else {
                                ExpOpt::As(format!("out{exported}"))
                            }
                        }
                    };
                    exported += 1;
                    prog.push(Stmt::Export(e, opt));
                }
            }
        }
        prog
    }
}

/// single-fault variants of a program
fn inject(prog: &mut Vec<Stmt>, fault: u16, at: u16) -> Option<&'static str> {
    if prog.is_empty() {
        return None;
    }
    let k = (at as usize * prog.len()) >> 16;
    fn first_new(e: &mut Expr) -> Option<&mut Vec<Arg>> {
        match e {
            Expr::New(_, a) => Some(a),
            Expr::Access(e, _) | Expr::Named(e, _) | Expr::Paren(e) => first_new(e),
            Expr::Ident(_) => None,
        }
    }
    let s = &mut prog[k];
    match fault % 12 {
        1 => {
            // undefined name
            match s {
                Stmt::Let(_, e) | Stmt::Export(e, _) => {
                    *e = Expr::Access(Box::new(Expr::Ident("zz-undefined".into())), "f".into());
                    Some("undefined-name")
                }
                _ => None,
            }
        }
        2 => {
            // duplicate local name
            let dup = match &prog[k] {
                Stmt::Let(id, _) | Stmt::Import { id, .. } => id.clone(),
                _ => return None,
            };
            prog.insert(k + 1, Stmt::Let(dup.clone(), Expr::Ident(dup)));
            Some("duplicate-name")
        }
        3 => {
            // drop the fill / an argument
            if let Stmt::Let(_, e) | Stmt::Export(e, _) = s {
                if let Some(args) = first_new(e) {
                    if !args.is_empty() {
                        args.pop();
                        return Some("dropped-last-argument");
                    }
                }
            }
            None
        }
        4 => {
            if let Stmt::Let(_, e) | Stmt::Export(e, _) = s {
                if let Some(args) = first_new(e) {
                    if let Some(a) = args.iter().find(|a| matches!(a, Arg::Named(..) | Arg::Inferred(_))).cloned() {
                        args.insert(0, a);
                        return Some("duplicate-argument");
                    }
                }
            }
            None
        }
        5 => {
            if let Stmt::Let(_, e) | Stmt::Export(e, _) = s {
                if let Some(args) = first_new(e) {
                    args.insert(0, Arg::Named(ArgName::Str("not-an-import".into()), Expr::Ident("zz-undefined".into())));
                    return Some("unknown-argument");
                }
            }
            None
        }
        6 => {
            // access on whatever the expression yields
            if let Stmt::Let(_, e) | Stmt::Export(e, _) = s {
                let inner = std::mem::replace(e, Expr::Ident(String::new()));
                *e = Expr::Access(Box::new(Expr::Access(Box::new(inner), "f".into())), "f".into());
                return Some("access-chain");
            }
            None
        }
        7 => {
            if let Stmt::Let(_, e) | Stmt::Export(e, _) = s {
                if let Some(args) = first_new(e) {
                    if args.last() == Some(&Arg::Fill) && args.len() >= 2 {
                        let n = args.len();
                        args.swap(0, n - 1);
                        return Some("fill-not-last");
                    }
                }
            }
            None
        }
        8 => {
            if let Stmt::Let(_, e) | Stmt::Export(e, _) = s {
                let local = match e {
                    Expr::Ident(n) => Some(n.clone()),
                    _ => None,
                };
                if let (Some(args), None) = (first_new(e), local) {
                    // spread of a name that is bound earlier or not at all
                    args.insert(0, Arg::Spread("a".into()));
                    return Some("extra-spread");
                }
            }
            None
        }
        9 => {
            // export the same thing twice
            if let Stmt::Export(e, opt) = &prog[k] {
                let (e, opt) = (e.clone(), opt.clone());
                prog.insert(k + 1, Stmt::Export(e, opt));
                return Some("export-twice");
            }
            None
        }
        10 => {
            if let Stmt::Let(_, e) = &prog[k] {
                if matches!(e, Expr::New(..)) {
                    let e = e.clone();
                    prog.insert(k + 1, Stmt::Export(e, ExpOpt::None));
                    return Some("export-instantiation-without-as");
                }
            }
            None
        }
        11 => {
            if let Stmt::Import { id, as_name, ty } = &prog[k] {
                let (id2, as_name, ty) = (format!("{id}2"), as_name.clone(), ty.clone());
                let as_name = as_name.or_else(|| if matches!(ty, ImpTy::Shape(_)) { Some(id.clone()) } else { None });
                prog.insert(k + 1, Stmt::Import { id: id2, as_name, ty });
                return Some("duplicate-import-name");
            }
            None
        }
        _ => None,
    }
}

fn error_variant<E: std::fmt::Debug>(e: &E) -> String {
    let d = format!("{e:?}");
    d.split(|c: char| !c.is_alphanumeric()).next().unwrap_or("").to_string()
}

fn check(c: &Case) -> Outcome {
    let mut o = check_inner(c);
    // any disagreement on a program in which the T3 shape occurred is left open
    if matches!(o.verdict, Verdict::Fail { .. }) && o.labels.iter().any(|l| l == "T3") {
        o.verdict = Verdict::Tolerated("T3");
    }
    o
}

fn check_inner(c: &Case) -> Outcome {
    let comps = build_comps(&c.comps);
    let mut g = Gen { comps: &comps, src: Src { c: &c.choices, i: 0 }, env: vec![] };
    let mut prog = g.program();
    let injected = if c.fault % 12 != 0 { inject(&mut prog, c.fault, c.fault_at) } else { None };
    let text = render(&prog);
    // library
    let mut pkgs: Pkgs = wit_packages().clone();
    let mut idents = vec![];
    for comp in &comps {
        let wat = comp_wat(comp);
        match wat::parse_str(&wat) {
            Ok(b) => {
                idents.push(sha_hex(&b)[..12].to_string());
                pkgs.push((comp.name.clone(), None, b));
            }
            Err(e) => return Outcome::gen_invalid(format!("library component does not assemble: {e}\n{wat}")),
        }
    }
    let expected = evaluate(&comps, &prog);
    let mut o = Outcome::pass().rendered(json!({"document": text, "library": comps.iter().map(|c| format!("{}: imports {:?} exports {:?}", c.name, c.imports.iter().map(|i| &i.0).collect::<Vec<_>>(), c.exports.iter().map(|i| &i.0).collect::<Vec<_>>())).collect::<Vec<_>>()}));
    if let Some(l) = injected {
        o = o.label(format!("fault:{l}"));
    }
    // ---- wac
    let doc = match guarded(|| Document::parse(&text)) {
        Ok(Ok(d)) => d,
        Ok(Err(e)) => return o.with_verdict(Verdict::GenInvalid(format!("generated document does not parse: {e:?}\n{text}"))),
        Err(p) => return o.with_verdict(Verdict::Foreign(format!("parse panicked (C14's obligation): {p}"))),
    };
    let mut map: IndexMap<BorrowedPackageKey<'_>, Vec<u8>> = IndexMap::new();
    for (n, v, b) in &pkgs {
        map.insert(BorrowedPackageKey::from_name_and_version(n, v.as_ref()), b.clone());
    }
    let resolved = match guarded(|| doc.resolve(map)) {
        Ok(r) => r,
        Err(p) => return o.with_verdict(Verdict::Fail { sig: format!("C04/panic:resolve:{}", panic_sig(&p)), msg: format!("resolve panicked: {p}\n{text}") }),
    };
    match (&expected, resolved) {
        (Expected::Err(at, faults, open), Err(e)) => {
            let v = error_variant(&e);
            o = o.label("rejected").label(format!("diagnostic:{v}")).nontrivial(true);
            if faults.iter().any(|f| *f == v) {
                return o.comparisons(1);
            }
            if *open {
                return o.with_verdict(Verdict::Tolerated("T3"));
            }
            o.with_verdict(Verdict::Fail { sig: format!("C04/wrong-diagnostic:{v}-expected-{}", faults.join("|")), msg: format!("statement {at} is ill-formed ({faults:?}); wac reports {v}: {e:?}\n{text}") })
        }
        (Expected::Err(at, faults, open), Ok(_)) => {
            if *open {
                return o.with_verdict(Verdict::Tolerated("T3"));
            }
            o.nontrivial(true).with_verdict(Verdict::Fail { sig: format!("C04/accepted-ill-formed:{}", faults.join("|")), msg: format!("statement {at} is ill-formed per the reference ({faults:?}) but the document resolves\n{text}") })
        }
        (Expected::Ok(m), Err(e)) => {
            let v = error_variant(&e);
            if m.labels.contains("T3") {
                return o.with_verdict(Verdict::Tolerated("T3"));
            }
            o.nontrivial(true).with_verdict(Verdict::Fail { sig: format!("C04/rejected-well-formed:{v}"), msg: format!("the reference evaluator composes this document; wac rejects it: {e:?}\n{text}") })
        }
        (Expected::Ok(m), Ok(res)) => {
            for l in &m.labels {
                o = o.label(*l);
            }
            let nontrivial = m.labels.iter().any(|l| matches!(*l, "inference-precedence-matters" | "spread-with-explicit-arguments" | "spread-export-skips-existing" | "access-by-path-suffix" | "named-by-path-suffix"));
            o = o.label("composed").nontrivial(nontrivial);
            // implicit imports that cannot be merged are a documented encode-time error
            let mut need: BTreeMap<String, Vec<Ty>> = BTreeMap::new();
            for inst in &m.insts {
                for (n, t) in &comps[inst.comp].imports {
                    if !inst.args.contains_key(n) {
                        need.entry(track_key(n)).or_default().push(t.clone());
                    }
                }
            }
            let explicit_tracks: BTreeSet<String> = m.imports.iter().map(|(n, _)| track_key(n)).collect();
            // explicit imports on a semver track are merged with what else is on that track (C03's T7)
            let mut all: BTreeMap<String, Vec<Ty>> = need.clone();
            for (n, t) in &m.imports {
                all.entry(track_key(n)).or_default().push(t.clone());
            }
            let conflict = all.values().any(|ts| ts.iter().any(|a| ts.iter().any(|b| !mergeable(a, b))));
            let explicit_meets_implicit = need.keys().any(|k| explicit_tracks.contains(k));
            let bytes = match guarded(|| res.encode(EncodeOptions { define_components: true, validate: false, processor: None })) {
                Err(p) => return o.with_verdict(Verdict::Foreign(format!("encode panicked (C01's obligation): {p}"))),
                Ok(Err(e)) => {
                    if conflict {
                        return o.label("implicit-import-conflict").comparisons(1);
                    }
                    if explicit_meets_implicit {
                        return o.with_verdict(Verdict::Tolerated("explicit-vs-implicit-import"));
                    }
                    return o.with_verdict(Verdict::Fail { sig: format!("C04/encode-error:{}", crate::props::c01::msg_class(&format!("{e:#}"))), msg: format!("the document resolves but does not encode: {e:#}\n{text}") });
                }
                Ok(Ok(b)) => b,
            };
            if conflict {
                return o.with_verdict(Verdict::Foreign("conflicting implicit imports were merged (C03/C09's obligation)".into()));
            }
            let w = match wire::decode(&bytes) {
                Ok(w) => w,
                Err(e) => return o.with_verdict(Verdict::Foreign(format!("output does not decode (C01's obligation): {e}"))),
            };
            let mut comp_ident = BTreeMap::new();
            for (idx, b) in w.embedded_components() {
                comp_ident.insert(idx, sha_hex(b)[..12].to_string());
            }
            let mut ws = WSigs { w: &w, comp_ident, memo: HashMap::new() };
            let mut comparisons = 0u64;
            // instantiations
            let mut want: Vec<String> = (0..m.insts.len()).map(|i| inst_sig(m, &comps, &idents, i)).collect();
            let mut got: Vec<String> = w.instantiations().iter().map(|(i, _, _)| ws.sig(Kind::Instance, *i, 0)).collect();
            want.sort();
            got.sort();
            comparisons += want.len() as u64 + 1;
            if want != got {
                if m.labels.contains("T3") || explicit_meets_implicit {
                    return o.with_verdict(Verdict::Tolerated(if explicit_meets_implicit { "explicit-vs-implicit-import" } else { "T3" }));
                }
                let only_ref: Vec<_> = want.iter().filter(|s| !got.contains(s)).cloned().collect();
                let only_out: Vec<_> = got.iter().filter(|s| !want.contains(s)).cloned().collect();
                let which = if want.len() != got.len() { "instantiation-count" } else { "argument-binding" };
                let rules: Vec<&str> = m.labels.iter().filter(|l| l.starts_with("inferred-by") || l.contains("spread") || l.contains("suffix")).cloned().collect();
                return o.with_verdict(Verdict::Fail { sig: format!("C04/{which}"), msg: format!("wiring differs from the reference evaluation ({rules:?}).\n only in reference: {only_ref:#?}\n only in output: {only_out:#?}\n{text}") });
            }
            // exports
            for (names, v) in &m.exports {
                comparisons += 1;
                let hit = w.exports.iter().find(|(n, _, _)| names.contains(n));
                let Some((n, k, idx)) = hit else {
                    return o.with_verdict(Verdict::Fail { sig: "C04/export-name".into(), msg: format!("the reference exports {names:?}; the output exports {:?}\n{text}", w.exports.iter().map(|e| e.0.clone()).collect::<Vec<_>>()) });
                };
                let a = ws.sig(*k, *idx, 0);
                let e = val_sig(m, &comps, &idents, v);
                if a != e {
                    return o.with_verdict(Verdict::Fail { sig: "C04/export-binding".into(), msg: format!("export `{n}` is bound to\n   {a}\n the reference evaluation gives\n   {e}\n{text}") });
                }
            }
            comparisons += 1;
            for (n, _, _) in &w.exports {
                if !m.exports.iter().any(|(ns, _)| ns.contains(n)) {
                    return o.with_verdict(Verdict::Fail { sig: "C04/unexpected-export".into(), msg: format!("the output exports `{n}`, the reference evaluation does not\n{text}") });
                }
            }
            // explicit imports appear under their documented names
            let out_tracks: BTreeSet<String> = w.imports.iter().map(|i| track_key(&i.name)).collect();
            for (n, _) in &m.imports {
                comparisons += 1;
                if !out_tracks.contains(&track_key(n)) {
                    return o.with_verdict(Verdict::Fail { sig: "C04/import-name".into(), msg: format!("explicit import `{n}` is not an import of the output; output imports {:?}\n{text}", w.imports.iter().map(|i| i.name.clone()).collect::<Vec<_>>()) });
                }
            }
            // nothing is imported that neither an import statement nor an implicit argument asks for
            for i in &w.imports {
                comparisons += 1;
                let t = track_key(&i.name);
                if !explicit_tracks.contains(&t) && !need.contains_key(&t) {
                    return o.with_verdict(Verdict::Fail { sig: "C04/unexpected-import".into(), msg: format!("the output imports `{}` which no import statement or implicit argument asks for\n{text}", i.name) });
                }
            }
            o.comparisons(comparisons)
        }
    }
}

fn compspec_strategy() -> impl Strategy<Value = CompSpec> {
    (proptest::collection::vec((any::<u8>(), any::<u8>()), 0..5), proptest::collection::vec((any::<u8>(), any::<u8>()), 1..5)).prop_map(|(imports, exports)| CompSpec { imports, exports })
}

pub fn run(tier: Tier, seed: u64, replay: Option<&std::path::Path>) -> i32 {
    let mut run = Run::new(
        "C04",
        tier,
        seed,
        "exploration",
        "a library of 1-4 generated components (0-4 imports, 1-4 exports; names from plain names and interface paths with and without versions incl. two paths sharing a last segment and a plain name equal to a last segment; types from 5 shapes with a known subtype table) plus four WIT packages for path-typed imports, and a program of up to 9 statements built by a semantic generator from a choice string (imports with inline/func/path types and `as`; lets of `new` with named (identifier and string), inferred, spread and fill arguments, nested `new`, access and named access, parentheses; exports plain / `as` / spread), steered towards well-typed programs with a few percent of arbitrary choices; plus 11 single-fault variants applied to generated programs. Oracle: O-eval, an evaluator written from LANGUAGE.md, yields the diagnostic classes of the first ill-formed statement or the wiring (instantiations with every argument's binding, exports, explicit imports); wac must reject with one of those classes or produce an output whose section-level decoding has the same instantiation signatures (multiset), export bindings and names, and imports. Non-trivial = rejected, or a composition where two inference rules give different answers, a spread competes with explicit arguments, a spread export skips an existing name, or a path-suffix rule applies. Distinct by JSON hash.",
    );
    run.assume("T3: a literal name and a unique path suffix both match (LANGUAGE.md states the suffix rule first, the code prefers the literal name): either binding accepted");
    run.assume("an explicit import on the semver track of an implicit import (C03's T7): any outcome of the merge is accepted here");
    run.assume("`export e` without `as`: LANGUAGE.md only shows the accessed name; the evaluator mirrors argument inference (an instance with an associated path is exported under the path, otherwise under the imported/accessed name), as the resolver's own doc comments say");
    if let Some(p) = replay {
        run.replay_case::<Case, _>(p, check);
        return run.finish();
    }
    let n = tier.pick(40_000, 800_000);
    run.explore(1, 16, n / 16, || (proptest::collection::vec(compspec_strategy(), 1..5), proptest::collection::vec(any::<u16>(), 4..90)).prop_map(|(comps, choices)| Case { comps, choices, fault: 0, fault_at: 0 }), check);
    run.explore(
        2,
        16,
        n / 32,
        || (proptest::collection::vec(compspec_strategy(), 1..5), proptest::collection::vec(any::<u16>(), 10..90), 1u16..12, any::<u16>()).prop_map(|(comps, choices, fault, fault_at)| Case { comps, choices, fault, fault_at }),
        check,
    );
    for l in ["composed", "rejected", "inference-precedence-matters", "inferred-by-rule1", "inferred-by-rule2", "inferred-by-rule3", "inferred-by-rule4", "named-by-path-suffix", "access-by-path-suffix", "spread-argument-bound", "spread-with-explicit-arguments", "spread-export", "spread-export-skips-existing", "implicit-import"] {
        run.floor(l, 10);
    }
    run.finish()
}


/// The document and the packages of a case (used by C16 to observe resolvable programs).
pub fn document_and_packages(c: &Case) -> (String, Pkgs) {
    let comps = build_comps(&c.comps);
    let mut g = Gen { comps: &comps, src: Src { c: &c.choices, i: 0 }, env: vec![] };
    let mut prog = g.program();
    if c.fault % 12 != 0 {
        inject(&mut prog, c.fault, c.fault_at);
    }
    let mut pkgs: Pkgs = wit_packages().clone();
    for comp in &comps {
        if let Ok(b) = wat::parse_str(comp_wat(comp)) {
            pkgs.push((comp.name.clone(), None, b));
        }
    }
    (render(&prog), pkgs)
}

pub fn case_strategy() -> impl Strategy<Value = Case> {
    (proptest::collection::vec(compspec_strategy(), 1..5), proptest::collection::vec(any::<u16>(), 4..90)).prop_map(|(comps, choices)| Case { comps, choices, fault: 0, fault_at: 0 })
}
