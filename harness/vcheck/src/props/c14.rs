//! C14 — no input crashes the front end; diagnostics point inside the source.
//!
//! Oracle: the "total function" oracle.  `Document::parse`, `wac_resolver::packages`,
//! `Document::resolve`, `Resolution::encode` (both dependency modes) and `Package::from_bytes` must
//! return `Ok`/`Err` — a panic is caught and attributed; aborts / stack overflows are observed from
//! the wait status of a supervised worker process (depth ladder).  Every span in a returned tree or
//! diagnostic must lie inside the source on char boundaries, and miette's graphical handler must
//! render the diagnostic against the source.

use crate::engine::*;
use crate::gen::wacsyn::*;
use crate::wacutil::*;
use indexmap::IndexMap;
use miette::Diagnostic;
use proptest::prelude::*;
use serde::{Deserialize, Serialize};
use serde_json::{json, Value};
use std::collections::BTreeMap;
use std::sync::OnceLock;
use wac_graph::EncodeOptions;
use wac_parser::Document;
use wac_types::BorrowedPackageKey;

// ---------------------------------------------------------------------------------------------
// fixtures: every .wac under /repo with the packages its sibling directory provides

#[derive(Clone)]
pub struct Fixture {
    pub path: String,
    pub text: String,
    /// (name, version) -> bytes, as loaded by the repository's own file-system resolver
    pub packages: Vec<(String, Option<semver::Version>, Vec<u8>)>,
}

pub fn fixtures() -> &'static Vec<Fixture> {
    static F: OnceLock<Vec<Fixture>> = OnceLock::new();
    F.get_or_init(|| {
        let mut out = vec![];
        for (path, text) in repo_wac_files() {
            let p = std::path::Path::new(&path);
            let dir = p.parent().unwrap().join(p.file_stem().unwrap());
            let mut packages = vec![];
            if let Ok(Ok(doc)) = guarded(|| Document::parse(&text)) {
                if let Ok(Ok(keys)) = guarded(|| wac_resolver::packages(&doc)) {
                    let resolver = wac_resolver::FileSystemPackageResolver::new(dir.clone(), Default::default(), false);
                    // resolve key by key so one broken package does not hide the others
                    for (k, span) in keys.iter() {
                        let mut one = IndexMap::new();
                        one.insert(*k, *span);
                        if let Ok(Ok(m)) = guarded(|| resolver.resolve(&one)) {
                            for (k, bytes) in m {
                                packages.push((k.name.to_string(), k.version.cloned(), bytes));
                            }
                        }
                    }
                }
            }
            out.push(Fixture { path, text, packages });
        }
        out
    })
}

// ---------------------------------------------------------------------------------------------
// span and diagnostic checks

fn span_ok(src: &str, off: usize, len: usize) -> Result<(), String> {
    let end = off.checked_add(len).ok_or("span overflows")?;
    if end > src.len() {
        return Err(format!("span {off}+{len} ends outside the {}-byte source", src.len()));
    }
    if !src.is_char_boundary(off) || !src.is_char_boundary(end) {
        return Err(format!("span {off}+{len} is not on character boundaries"));
    }
    Ok(())
}

fn tree_spans(v: &Value, src: &str, n: &mut u64) -> Result<(), String> {
    match v {
        Value::Object(m) => {
            if m.len() == 2 {
                if let (Some(o), Some(l)) = (m.get("offset").and_then(|x| x.as_u64()), m.get("length").and_then(|x| x.as_u64())) {
                    *n += 1;
                    return span_ok(src, o as usize, l as usize);
                }
            }
            for x in m.values() {
                tree_spans(x, src, n)?;
            }
            Ok(())
        }
        Value::Array(a) => {
            for x in a {
                tree_spans(x, src, n)?;
            }
            Ok(())
        }
        _ => Ok(()),
    }
}

/// Check labels of a diagnostic and render it with the graphical handler.
fn diagnostic_ok<E: Diagnostic + Send + Sync + 'static>(e: E, src: &str) -> Result<(), (String, String)> {
    if let Some(labels) = e.labels() {
        for l in labels {
            if let Err(m) = span_ok(src, l.offset(), l.len()) {
                let kind = if m.contains("outside") { "diagnostic-span-outside-source" } else { "diagnostic-span-not-on-char-boundary" };
                return Err((kind.to_string(), format!("{m} (diagnostic: {e})")));
            }
        }
    }
    let msg = e.to_string();
    let report = miette::Report::new(e).with_source_code(miette::NamedSource::new("input.wac", src.to_string()));
    let mut out = String::new();
    let r = guarded(|| {
        miette::GraphicalReportHandler::new().with_cause_chain().with_theme(miette::GraphicalTheme::unicode_nocolor()).render_report(&mut out, report.as_ref())
    });
    match r {
        Ok(Ok(())) => Ok(()),
        Ok(Err(_)) => Err(("diagnostic-does-not-render".into(), format!("miette failed to render `{msg}`"))),
        Err(p) => Err(("diagnostic-render-panics".into(), format!("rendering `{msg}` panicked: {p}"))),
    }
}

#[derive(Default)]
pub struct Stages {
    pub parsed: bool,
    pub statements: usize,
    pub discovered: bool,
    pub resolved: bool,
    pub encoded: bool,
    pub spans: u64,
}

/// Run the whole front end on one text with the given packages.  `Err((sig, msg))` on violation.
pub fn front_end(text: &str, pkgs: &[(String, Option<semver::Version>, Vec<u8>)], st: &mut Stages) -> Result<(), (String, String)> {
    let doc = match guarded(|| Document::parse(text)) {
        Err(p) => return Err((format!("C14/panic:parse:{}", panic_sig(&p)), format!("Document::parse panicked: {p}"))),
        Ok(Err(e)) => {
            return diagnostic_ok(e, text).map_err(|(k, m)| (format!("C14/parse-{k}"), m));
        }
        Ok(Ok(d)) => d,
    };
    st.parsed = true;
    st.statements = doc.statements.len();
    let tree = serde_json::to_value(&doc).map_err(|e| ("C14/tree-does-not-serialise".to_string(), e.to_string()))?;
    let mut n = 0;
    if let Err(m) = tree_spans(&tree, text, &mut n) {
        let kind = if m.contains("outside") { "tree-span-outside-source" } else { "tree-span-not-on-char-boundary" };
        return Err((format!("C14/{kind}"), m));
    }
    st.spans = n;

    // discovery
    let keys = match guarded(|| wac_resolver::packages(&doc)) {
        Err(p) => return Err((format!("C14/panic:discovery:{}", panic_sig(&p)), format!("wac_resolver::packages panicked: {p}"))),
        Ok(Err(e)) => return diagnostic_ok(e, text).map_err(|(k, m)| (format!("C14/discovery-{k}"), m)),
        Ok(Ok(k)) => k,
    };
    st.discovered = true;
    let mut map: IndexMap<BorrowedPackageKey<'_>, Vec<u8>> = IndexMap::new();
    for (k, _) in keys.iter() {
        if let Some((_, _, bytes)) = pkgs.iter().find(|(n, v, _)| n == k.name && v.as_ref() == k.version) {
            map.insert(*k, bytes.clone());
        }
    }
    let resolution = match guarded(|| doc.resolve(map)) {
        Err(p) => return Err((format!("C14/panic:resolve:{}", panic_sig(&p)), format!("Document::resolve panicked: {p}"))),
        Ok(Err(e)) => return diagnostic_ok(e, text).map_err(|(k, m)| (format!("C14/resolve-{k}"), m)),
        Ok(Ok(r)) => r,
    };
    st.resolved = true;
    for define_components in [true, false] {
        let opts = EncodeOptions { define_components, validate: true, processor: None };
        match guarded(|| resolution.encode(opts)) {
            Err(p) => {
                return Err((
                    format!("C14/panic:encode{}:{}", if define_components { "" } else { "-import-mode" }, panic_sig(&p)),
                    format!("Resolution::encode(define_components={define_components}) panicked: {p}"),
                ))
            }
            Ok(Err(e)) => diagnostic_ok(e, text).map_err(|(k, m)| (format!("C14/encode-{k}"), m))?,
            Ok(Ok(_)) => st.encoded = true,
        }
    }
    Ok(())
}

// ---------------------------------------------------------------------------------------------
// cases

#[derive(Clone, Debug, Serialize, Deserialize)]
pub enum ByteMut {
    None,
    Truncate(u16),
    SetByte(u16, u8),
    FlipBit(u16, u8),
    Insert(u16, String),
    Delete(u16, u8),
    Duplicate(u16, u8),
}

fn idx(raw: u16, len: usize) -> usize {
    (raw as usize * (len + 1)) >> 16
}

fn mutate_text(text: &str, m: &ByteMut) -> String {
    let mut b = text.as_bytes().to_vec();
    match m {
        ByteMut::None => {}
        ByteMut::Truncate(p) => b.truncate(idx(*p, b.len())),
        ByteMut::SetByte(p, v) => {
            if !b.is_empty() {
                let i = idx(*p, b.len() - 1);
                // keep it valid UTF-8: only ASCII replacements at ASCII positions
                if b[i] < 0x80 {
                    b[i] = *v & 0x7f;
                }
            }
        }
        ByteMut::FlipBit(p, bit) => {
            if !b.is_empty() {
                let i = idx(*p, b.len() - 1);
                if b[i] < 0x80 {
                    b[i] ^= 1 << (bit % 7);
                }
            }
        }
        ByteMut::Insert(p, s) => {
            let mut i = idx(*p, b.len());
            while !text.is_char_boundary(i) {
                i -= 1;
            }
            let mut out = b[..i].to_vec();
            out.extend_from_slice(s.as_bytes());
            out.extend_from_slice(&b[i..]);
            b = out;
        }
        ByteMut::Delete(p, n) => {
            let mut i = idx(*p, b.len());
            while !text.is_char_boundary(i) {
                i -= 1;
            }
            let mut j = (i + *n as usize % 8).min(b.len());
            while !text.is_char_boundary(j) {
                j += 1;
            }
            b.drain(i..j);
        }
        ByteMut::Duplicate(p, n) => {
            let mut i = idx(*p, b.len());
            while !text.is_char_boundary(i) {
                i -= 1;
            }
            let mut j = (i + *n as usize % 16).min(b.len());
            while !text.is_char_boundary(j) {
                j += 1;
            }
            let chunk = b[i..j].to_vec();
            let mut out = b[..j].to_vec();
            out.extend_from_slice(&chunk);
            out.extend_from_slice(&b[j..]);
            b = out;
        }
    }
    String::from_utf8(b).unwrap_or_else(|e| String::from_utf8_lossy(e.as_bytes()).into_owned())
}

const INSERTS: &[&str] = &[
    "\"", "/*", "*/", "//", "%", "-", "@", ":", "/", "...", ".", ";", ",", "(", ")", "{", "}", "<", ">", "->", "\u{2603}", "\u{1F600}", "\u{e9}", "\u{85}", "\u{9b}", "\u{202e}", "\u{0}", "\u{7f}",
    " as ", " new a:b { ... } ", " use ", "type foo = u32;", "foo: func();", "import ", "export ", "let ", "targets ", "interface ", "world ", "resource ", "borrow<", "own<", "result<", "tuple<", "1.0.0",
    "@1.0.0", "\n///", "\r", "\t",
];

fn bytemut_strategy() -> impl Strategy<Value = ByteMut> {
    prop_oneof![
        1 => Just(ByteMut::None),
        3 => any::<u16>().prop_map(ByteMut::Truncate),
        3 => (any::<u16>(), any::<u8>()).prop_map(|(p, v)| ByteMut::SetByte(p, v)),
        2 => (any::<u16>(), any::<u8>()).prop_map(|(p, v)| ByteMut::FlipBit(p, v)),
        6 => (any::<u16>(), proptest::sample::select(INSERTS)).prop_map(|(p, s)| ByteMut::Insert(p, s.to_string())),
        3 => (any::<u16>(), any::<u8>()).prop_map(|(p, v)| ByteMut::Delete(p, v)),
        3 => (any::<u16>(), any::<u8>()).prop_map(|(p, v)| ByteMut::Duplicate(p, v)),
    ]
}

#[derive(Clone, Debug, Serialize, Deserialize)]
pub struct FixtureCase {
    pub file: u16,
    pub muts: Vec<ByteMut>,
    /// what to do with the packages: 0 as given, 1 none, 2 rotate bytes among keys, 3 corrupt one
    pub pkg_mode: u8,
    pub pkg_mut: ByteMut,
}

fn fixture_text(c: &FixtureCase) -> (usize, String) {
    let fx = fixtures();
    let i = (c.file as usize * fx.len()) >> 16;
    let mut t = fx[i].text.clone();
    for m in &c.muts {
        t = mutate_text(&t, m);
    }
    (i, t)
}

fn mutate_bytes(b: &[u8], m: &ByteMut) -> Vec<u8> {
    let mut b = b.to_vec();
    match m {
        ByteMut::None => {}
        ByteMut::Truncate(p) => b.truncate(idx(*p, b.len())),
        ByteMut::SetByte(p, v) => {
            if !b.is_empty() {
                let i = idx(*p, b.len() - 1);
                b[i] = *v;
            }
        }
        ByteMut::FlipBit(p, bit) => {
            if !b.is_empty() {
                let i = idx(*p, b.len() - 1);
                b[i] ^= 1 << (bit % 8);
            }
        }
        ByteMut::Insert(p, s) => {
            let i = idx(*p, b.len());
            let mut out = b[..i].to_vec();
            out.extend_from_slice(s.as_bytes());
            out.extend_from_slice(&b[i..]);
            b = out;
        }
        ByteMut::Delete(p, n) => {
            let i = idx(*p, b.len());
            let j = (i + *n as usize % 8).min(b.len());
            b.drain(i..j);
        }
        ByteMut::Duplicate(p, n) => {
            let i = idx(*p, b.len());
            let j = (i + *n as usize % 16).min(b.len());
            let chunk = b[i..j].to_vec();
            let mut out = b[..j].to_vec();
            out.extend_from_slice(&chunk);
            out.extend_from_slice(&b[j..]);
            b = out;
        }
    }
    b
}

fn outcome_of(text: &str, r: Result<(), (String, String)>, st: &Stages, mutated: bool, mut labels: Vec<String>) -> Outcome {
    if st.parsed {
        labels.push("reached-parse-ok".into());
    }
    if st.resolved {
        labels.push("reached-resolve-ok".into());
    }
    if st.encoded {
        labels.push("reached-encode-ok".into());
    }
    let nontrivial = (st.parsed && st.statements >= 1) || mutated;
    let o = Outcome::pass().labels(labels).nontrivial(nontrivial).comparisons(st.spans + 1).rendered(json!({"text": text}));
    match r {
        Ok(()) => o,
        Err((sig, msg)) => o.with_verdict(Verdict::Fail { sig, msg: format!("{msg}\n--- text ---\n{text}") }),
    }
}

fn check_fixture(c: &FixtureCase) -> Outcome {
    let (i, text) = fixture_text(c);
    let fx = &fixtures()[i];
    let mut pkgs = fx.packages.clone();
    let mut labels = vec!["fixture".to_string()];
    match c.pkg_mode % 4 {
        1 => {
            pkgs.clear();
            labels.push("packages-missing".into());
        }
        2 if pkgs.len() >= 2 => {
            let first = pkgs[0].2.clone();
            let n = pkgs.len();
            for k in 0..n - 1 {
                pkgs[k].2 = pkgs[k + 1].2.clone();
            }
            pkgs[n - 1].2 = first;
            labels.push("packages-swapped".into());
        }
        3 if !pkgs.is_empty() => {
            let k = idx(c.file.wrapping_mul(31), pkgs.len() - 1);
            pkgs[k].2 = mutate_bytes(&pkgs[k].2, &c.pkg_mut);
            labels.push("package-corrupted".into());
        }
        _ => {}
    }
    let mut st = Stages::default();
    let r = front_end(&text, &pkgs, &mut st);
    outcome_of(&text, r, &st, !c.muts.is_empty(), labels)
}

#[derive(Clone, Debug, Serialize, Deserialize)]
pub struct SynMutCase {
    pub base: SynCase,
    pub muts: Vec<ByteMut>,
}

fn check_syn(c: &SynMutCase) -> Outcome {
    let mut text = c.base.text();
    for m in &c.muts {
        text = mutate_text(&text, m);
    }
    let mut st = Stages::default();
    let r = front_end(&text, &[], &mut st);
    outcome_of(&text, r, &st, !c.muts.is_empty(), vec!["grammar-generated".into()])
}

#[derive(Clone, Debug, Serialize, Deserialize)]
pub struct TextCase {
    pub text: String,
}

fn check_text(c: &TextCase) -> Outcome {
    let mut st = Stages::default();
    let r = front_end(&c.text, &[], &mut st);
    outcome_of(&c.text, r, &st, false, vec!["arbitrary-text".into()])
}

#[derive(Clone, Debug, Serialize, Deserialize)]
pub struct BytesCase {
    /// index into the pool of package byte strings
    pub pool: u16,
    pub muts: Vec<ByteMut>,
}

pub fn byte_pool() -> &'static Vec<(String, Vec<u8>)> {
    static P: OnceLock<Vec<(String, Vec<u8>)>> = OnceLock::new();
    P.get_or_init(|| {
        let mut out: Vec<(String, Vec<u8>)> = vec![];
        let mut seen = std::collections::BTreeSet::new();
        for f in fixtures() {
            for (n, _, b) in &f.packages {
                if seen.insert(sha_hex(b)) {
                    out.push((format!("fixture:{n}"), b.clone()));
                }
            }
        }
        for (name, wat) in SHAPED_WAT {
            match wat::parse_str(wat) {
                Ok(b) => out.push((format!("wat:{name}"), b)),
                Err(e) => panic!("shaped wat {name} does not assemble: {e}"),
            }
        }
        for p in ["/repo/crates/wac-types/tests/dummy_wasi_http@0.2.0.wasm", "/repo/crates/wac-types/tests/dummy_wasi_http@0.2.3.wasm"] {
            if let Ok(b) = std::fs::read(p) {
                out.push((p.to_string(), b));
            }
        }
        out
    })
}

/// Hand-shaped components for what WIT cannot say (also used by other properties).
pub const SHAPED_WAT: &[(&str, &str)] = &[
    ("module-after-func", r#"(component (import "f" (func)) (import "m" (core module (import "a" "b" (func)) (export "c" (func)))) (export "f2" (func 0)))"#),
    ("two-modules", r#"(component (import "first" (core module (export "a" (func)))) (import "second" (core module (export "b" (func (param i32))))))"#),
    ("module-export-next-to-interface", r#"(component (import "i" (instance (export "f" (func)))) (core module $m (func (export "x"))) (export "m" (core module $m)) (export "i2" (instance 0)))"#),
    ("empty-component-type-export", r#"(component (type (component)) (export "empty" (type 0)))"#),
    ("component-type-export-two", r#"(component (type (component (export "a" (func)) (export "b" (func)))) (export "two" (type 0)))"#),
    ("component-type-export-non-interface", r#"(component (type (component (export "f" (func)))) (export "one" (type 0)) (type (instance)) (export "inst" (type 1)))"#),
    ("url-and-dep-names", r#"(component (import "url=<https://user@example.com/x>" (func)) (import "locked-dep=<a:b/c@1.0.0>" (func)) (import "relative-url=<x/y@z>" (func)) (import "integrity=<sha256-abc>" (func)) (export "f" (func 0)))"#),
    ("empty-component", "(component)"),
    ("core-module", "(module (func (export \"f\")))"),
    ("bare-func", "(component (import \"f\" (func)) (export \"g\" (func 0)))"),
    ("func-params", "(component (import \"f\" (func (param \"a\" u8) (param \"b\" string) (result (list u32)))) (export \"g\" (func 0)))"),
    ("nested-instance", "(component (import \"i\" (instance (export \"f\" (func)) (export \"j\" (instance (export \"g\" (func (result string))))))) (export \"e\" (instance 0)))"),
    ("import-core-module", "(component (import \"m\" (core module (import \"a\" \"b\" (func)) (export \"c\" (func (param i32) (result i64))) (export \"mem\" (memory 1)) (export \"t\" (table 1 funcref)) (export \"g\" (global (mut i32))))))"),
    ("import-component", "(component (import \"c\" (component (import \"x\" (func)) (export \"y\" (func (param \"p\" u8))))))"),
    ("value-import", "(component (import \"v\" (value string)) (export \"w\" (value 0)))"),
    ("type-imports", "(component (import \"t\" (type (sub resource))) (import \"u\" (type (eq 0))) (import \"f\" (func (param \"x\" (own 0)) (result (borrow 1)))) (type $r (record (field \"a\" u8))) (import \"r\" (type (eq $r))) (export \"r2\" (type 2)))"),
    ("module-gc-types", "(component (import \"m\" (core module (type $s (struct (field i32))) (export \"f\" (func (param (ref null $s)))) (export \"g\" (func (param externref) (result funcref))))))"),
    ("module-exn", "(component (import \"m\" (core module (export \"t\" (tag (param i32))) (export \"m64\" (memory i64 1)) (export \"sm\" (memory 1 2 shared)))))"),
    ("resource-export", "(component (type $r (resource (rep i32))) (export $e \"r\" (type $r)) (core module $m (func (export \"new\") (param i32) (result i32) local.get 0)) (core instance $i (instantiate $m)) (func $f (param \"x\" u32) (result (own $e)) (canon lift (core func $i \"new\"))) (export \"[constructor]r\" (func $f)))"),
    ("versioned-interface", "(component (import \"a:b/c@0.2.1\" (instance (export \"f\" (func)))) (import \"a:b/c@1.0.0\" (instance (export \"g\" (func)))) (export \"a:b/d@0.2.0\" (instance 0)))"),
    ("many-kinds", "(component (import \"f\" (func (param \"a\" (tuple u8 s16 f32 f64 char bool)) (result (result (option string) (error (variant (case \"x\") (case \"y\" u64))))))) (import \"g\" (func (param \"e\" (enum \"a\" \"b\")) (param \"fl\" (flags \"p\" \"q\")) (result (result)))))"),
    ("async-func", "(component (import \"f\" (func async (param \"a\" u8))))"),
    ("future-stream", "(component (import \"f\" (func (param \"a\" (future u8)) (result (stream string)))))"),
];

fn check_bytes(c: &BytesCase) -> Outcome {
    let pool = byte_pool();
    let i = (c.pool as usize * pool.len()) >> 16;
    let mut b = pool[i].1.clone();
    for m in &c.muts {
        b = mutate_bytes(&b, m);
    }
    decode_outcome(&pool[i].0, &b, !c.muts.is_empty())
}

pub fn decode_outcome(origin: &str, b: &[u8], mutated: bool) -> Outcome {
    let r = guarded(|| {
        let mut types = wac_types::Types::default();
        wac_types::Package::from_bytes("test:pkg", None, b.to_vec(), &mut types).map(|p| (p.name().to_string(), types))
    });
    let header_ok = b.len() >= 8 && &b[..4] == b"\0asm";
    let mut o = Outcome::pass().label("package-bytes").nontrivial(header_ok).rendered(json!({"origin": origin, "len": b.len(), "hex_prefix": hex::encode(&b[..b.len().min(48)])}));
    o = o.label(if mutated { "bytes-mutated" } else { "bytes-pristine" });
    match r {
        Ok(Ok(_)) => o.label("decode-ok"),
        Ok(Err(_)) => o.label("decode-err"),
        Err(p) => o.with_verdict(Verdict::Fail { sig: format!("C14/panic:decode:{}", panic_sig(&p)), msg: format!("Package::from_bytes panicked on {origin} ({} bytes): {p}\nhex: {}", b.len(), hex::encode(b)) }),
    }
}

#[derive(Clone, Debug, Serialize, Deserialize)]
pub struct RandomBytesCase {
    pub bytes: Vec<u8>,
    pub component_header: bool,
}

fn check_random_bytes(c: &RandomBytesCase) -> Outcome {
    let mut b = vec![];
    if c.component_header {
        b.extend_from_slice(b"\0asm\x0d\0\x01\0");
    }
    b.extend_from_slice(&c.bytes);
    decode_outcome("random", &b, true)
}

// ---------------------------------------------------------------------------------------------
// depth ladder in a supervised worker (stack overflow aborts the process; cannot be caught)

pub const NEST_KINDS: &[&str] = &["parens", "list-type", "tuple-type", "option-type", "nested-new", "block-comment", "inline-interface-world", "result-type", "access-chain", "named-access-chain"];

pub fn nest_text(kind: &str, depth: usize) -> String {
    match kind {
        "parens" => format!("package a:b;\nlet x = {}y{};\n", "(".repeat(depth), ")".repeat(depth)),
        "list-type" => format!("package a:b;\ntype t = {}u8{};\n", "list<".repeat(depth), ">".repeat(depth)),
        "option-type" => format!("package a:b;\ntype t = {}u8{};\n", "option<".repeat(depth), ">".repeat(depth)),
        "tuple-type" => format!("package a:b;\ntype t = {}u8{};\n", "tuple<".repeat(depth), ">".repeat(depth)),
        "result-type" => format!("package a:b;\ntype t = {}u8{};\n", "result<".repeat(depth), ">".repeat(depth)),
        "nested-new" => format!("package a:b;\nlet x = {}y{};\n", "new c:d { a: ".repeat(depth), " }".repeat(depth)),
        "block-comment" => format!("package a:b;\n{} x {}\nlet x = y;\n", "/*".repeat(depth), "*/".repeat(depth)),
        "inline-interface-world" => {
            // world items cannot nest worlds; nest inline interfaces through world imports is not possible either,
            // so this ladder nests `new` inside named arguments inside parentheses
            format!("package a:b;\nlet x = {}y{};\n", "(new c:d { a: ".repeat(depth), " })".repeat(depth))
        }
        "access-chain" => format!("package a:b;\nlet x = y{};\n", ".z".repeat(depth)),
        "named-access-chain" => format!("package a:b;\nlet x = y{};\n", "[\"z\"]".repeat(depth)),
        _ => unreachable!(),
    }
}

/// Worker entry: `check --worker-c14 <kind> <depth>`; runs the front end on an 8 MiB stack.
pub fn worker(kind: &str, depth: usize) -> i32 {
    let text = nest_text(kind, depth);
    let h = std::thread::Builder::new()
        .stack_size(8 * 1024 * 1024)
        .spawn(move || {
            let mut st = Stages::default();
            let r = front_end(&text, &[], &mut st);
            // also print it, dropping the tree is recursive too
            match r {
                Ok(()) => println!("WORKER-OK parsed={} resolved={}", st.parsed, st.resolved),
                Err((sig, msg)) => println!("WORKER-FAIL {sig} {}", msg.lines().next().unwrap_or("")),
            }
        })
        .unwrap();
    match h.join() {
        Ok(()) => 0,
        Err(_) => 3,
    }
}

#[derive(Clone, Debug, Serialize, Deserialize)]
pub struct DepthCase {
    pub kind: String,
    pub depth: usize,
}

fn check_depth(c: &DepthCase) -> Outcome {
    use std::os::unix::process::ExitStatusExt;
    let exe = std::env::current_exe().expect("current exe");
    let child = std::process::Command::new(exe)
        .args(["--worker-c14", &c.kind, &c.depth.to_string()])
        .env("RUST_BACKTRACE", "0")
        .stdout(std::process::Stdio::piped())
        .stderr(std::process::Stdio::piped())
        .spawn();
    let Ok(child) = child else { return Outcome::gen_invalid("cannot spawn worker") };
    let out = match child.wait_with_output() {
        Ok(o) => o,
        Err(e) => return Outcome::gen_invalid(format!("worker wait failed: {e}")),
    };
    let stdout = String::from_utf8_lossy(&out.stdout).to_string();
    let stderr = String::from_utf8_lossy(&out.stderr).to_string();
    let o = Outcome::pass().label(format!("depth-{}", c.kind)).nontrivial(c.depth >= 100).rendered(json!({"kind": c.kind, "depth": c.depth, "bytes": nest_text(&c.kind, c.depth.min(5)).len()}));
    if let Some(sig) = out.status.signal() {
        let overflow = stderr.contains("overflowed its stack");
        return o.with_verdict(Verdict::Fail {
            sig: format!("C14/stack-overflow:{}", c.kind),
            msg: format!("front end killed by signal {sig} ({}) on {} nested to depth {} ({} bytes of source)", if overflow { "stack overflow" } else { stderr.lines().last().unwrap_or("") }, c.kind, c.depth, nest_text(&c.kind, c.depth).len()),
        });
    }
    if let Some(line) = stdout.lines().find(|l| l.starts_with("WORKER-FAIL")) {
        let mut it = line.splitn(3, ' ');
        it.next();
        let sig = it.next().unwrap_or("C14/worker-fail").to_string();
        return o.with_verdict(Verdict::Fail { sig, msg: format!("depth {} of {}: {}", c.depth, c.kind, it.next().unwrap_or("")) });
    }
    if out.status.code() != Some(0) {
        return o.with_verdict(Verdict::Fail { sig: format!("C14/worker-abnormal-exit:{}", c.kind), msg: format!("exit {:?}: {stderr}", out.status.code()) });
    }
    o
}

// ---------------------------------------------------------------------------------------------

pub fn run(tier: Tier, seed: u64, replay: Option<&std::path::Path>) -> i32 {
    let mut run = Run::new(
        "C14",
        tier,
        seed,
        "exploration",
        "texts: every .wac file under /repo with the packages of its fixture directory, mutated by 0..3 byte/substring mutations (truncate, set byte, flip bit, insert from a 50-entry token/code-point pool, delete, duplicate) and paired with its packages as given / missing / rotated among keys / one corrupted; grammar-generated documents with 0..3 such mutations; arbitrary Unicode strings; programs of C04's semantic generator (and its single-fault variants) with their generated libraries; package byte strings: fixture packages, 16 shaped WAT components (nested instances/components, core modules incl. GC/ref types, values, resources, async, future/stream), the two WASI dummies, each with 0..3 byte mutations, plus random bytes with and without a component header; a nesting ladder (10 shapes x depths 10..100000) run in a supervised worker process on an 8 MiB stack. Oracle: every stage returns (panic caught and attributed to its site; abort seen in the wait status); every span of the tree and of every diagnostic label lies inside the source on char boundaries; miette renders every diagnostic. Non-trivial = at least one statement parsed, or a mutated (near-valid) input, or bytes with a wasm header, or ladder depth >= 100. Distinct by JSON hash.",
    );
    run.assume("termination is not decided: a hung worker would be reported as inconclusive (exit 2), never as a violation");
    run.assume("stack exhaustion is judged for the harness's release profile and an 8 MiB stack (what the CLI main thread has)");
    if let Some(p) = replay {
        let text = std::fs::read_to_string(p).unwrap_or_default();
        if text.contains("\"choices\"") {
            run.replay_case::<crate::props::c04::Case, _>(p, |c| {
                let (text, pkgs) = crate::props::c04::document_and_packages(c);
                let mut st = Stages::default();
                let r = front_end(&text, &pkgs, &mut st);
                outcome_of(&text, r, &st, true, vec!["semantic-program".into()])
            });
        } else if text.contains("\"pkg_mode\"") {
            run.replay_case::<FixtureCase, _>(p, check_fixture);
        } else if text.contains("\"base\"") {
            run.replay_case::<SynMutCase, _>(p, check_syn);
        } else if text.contains("\"pool\"") {
            run.replay_case::<BytesCase, _>(p, check_bytes);
        } else if text.contains("\"component_header\"") {
            run.replay_case::<RandomBytesCase, _>(p, check_random_bytes);
        } else if text.contains("\"depth\"") {
            run.replay_case::<DepthCase, _>(p, check_depth);
        } else {
            run.replay_case::<TextCase, _>(p, check_text);
        }
        return run.finish();
    }
    let nfix = fixtures().len();
    let npk: usize = fixtures().iter().map(|f| f.packages.len()).sum();
    run.set_extra("fixture_files", json!(nfix));
    run.set_extra("fixture_packages_loaded", json!(npk));
    run.set_extra("byte_pool", json!(byte_pool().iter().map(|(n, b)| (n.clone(), b.len())).collect::<BTreeMap<_, _>>()));

    // every fixture unmutated, with each package mode
    let mut base = vec![];
    for i in 0..nfix {
        for mode in 0..4u8 {
            base.push(FixtureCase { file: (((i as u64) << 16) / nfix as u64 + 1).min(65535) as u16, muts: vec![], pkg_mode: mode, pkg_mut: ByteMut::Truncate(30000) });
        }
    }
    run.enumerate(&base, check_fixture);
    // every byte pool entry unmutated and truncated at every length (exhaustive truncation)
    let pool = byte_pool();
    let mut pristine = vec![];
    for i in 0..pool.len() {
        pristine.push(BytesCase { pool: (((i as u64) << 16) / pool.len() as u64 + 1).min(65535) as u16, muts: vec![] });
    }
    run.enumerate(&pristine, check_bytes);
    #[derive(Serialize)]
    struct Trunc {
        pool: usize,
        len: usize,
    }
    let mut truncs = vec![];
    for (i, (_, b)) in pool.iter().enumerate() {
        let step = if tier == Tier::Quick { (b.len() / 400).max(1) } else { 1 };
        let mut l = 0;
        while l < b.len() {
            truncs.push(Trunc { pool: i, len: l });
            l += step;
        }
    }
    run.set_extra("truncation_points", json!(truncs.len()));
    run.enumerate(&truncs, |t| decode_outcome(&format!("{}[..{}]", pool[t.pool].0, t.len), &pool[t.pool].1[..t.len], true).label("truncation"));
    // every fixture text truncated at every char boundary
    #[derive(Serialize)]
    struct TTrunc {
        file: usize,
        len: usize,
    }
    let mut ttr = vec![];
    for (i, f) in fixtures().iter().enumerate() {
        let step = if tier == Tier::Quick { 7 } else { 1 };
        let mut l = 0;
        while l < f.text.len() {
            if f.text.is_char_boundary(l) {
                ttr.push(TTrunc { file: i, len: l });
            }
            l += step;
        }
    }
    run.set_extra("text_truncation_points", json!(ttr.len()));
    run.enumerate(&ttr, |t| {
        let f = &fixtures()[t.file];
        let text = &f.text[..t.len];
        let mut st = Stages::default();
        let r = front_end(text, &f.packages, &mut st);
        outcome_of(text, r, &st, true, vec!["text-truncation".into()])
    });

    // every ordered pair of item kinds declared under one name, in interface and world bodies and at the top level
    let docs = collision_docs();
    run.set_extra("name_collision_documents", json!(docs.len()));
    run.enumerate(&docs, |text| {
        let mut st = Stages::default();
        let r = front_end(text, &[], &mut st);
        outcome_of(text, r, &st, true, vec!["name-collision".into()])
    });

    // components whose worlds `use` types at world level (resources incl. borrows, records, renames)
    let (wpk, wdocs) = world_use_docs();
    run.set_extra("world_level_use_documents", json!(wdocs.len()));
    run.enumerate(&wdocs, |text| {
        let mut st = Stages::default();
        let r = front_end(text, &wpk, &mut st);
        outcome_of(text, r, &st, true, vec!["world-level-use".into()])
    });

    // implicit imports that meet on one name or one semver track with mergeable and unmergeable types
    let (cpk, cdocs) = conflict_docs();
    run.set_extra("merge_conflict_documents", json!(cdocs.len()));
    run.enumerate(&cdocs, |text| {
        let mut st = Stages::default();
        let r = front_end(text, &cpk, &mut st);
        outcome_of(text, r, &st, true, vec!["implicit-import-merge".into()])
    });

    let n = tier.pick(60_000, 1_000_000);
    run.explore(
        1,
        16,
        n / 16,
        || (any::<u16>(), proptest::collection::vec(bytemut_strategy(), 0..4), 0u8..4, bytemut_strategy()).prop_map(|(file, muts, pkg_mode, pkg_mut)| FixtureCase { file, muts, pkg_mode, pkg_mut }),
        check_fixture,
    );
    run.explore(2, 16, n / 32, || (syncase_strategy(5), proptest::collection::vec(bytemut_strategy(), 0..4)).prop_map(|(base, muts)| SynMutCase { base, muts }), check_syn);
    run.explore(
        3,
        16,
        n / 64,
        || prop_oneof![any::<String>().prop_map(|text| TextCase { text }), "\\PC{0,40}".prop_map(|text| TextCase { text }), "package [a-z]:[a-z];[ -~\\n]{0,80}".prop_map(|text| TextCase { text })],
        check_text,
    );
    run.explore(4, 16, n / 4, || (any::<u16>(), proptest::collection::vec(bytemut_strategy(), 1..4)).prop_map(|(pool, muts)| BytesCase { pool, muts }), check_bytes);
    run.explore(5, 16, n / 16, || (proptest::collection::vec(any::<u8>(), 0..200), any::<bool>()).prop_map(|(bytes, component_header)| RandomBytesCase { bytes, component_header }), check_random_bytes);

    // resolvable programs over generated libraries (C04's semantic generator, incl. its single-fault variants)
    run.explore(
        6,
        16,
        n / 16,
        || (crate::props::c04::case_strategy(), 0u16..12, any::<u16>()).prop_map(|(mut c, f, at)| {
            c.fault = f;
            c.fault_at = at;
            c
        }),
        |c: &crate::props::c04::Case| {
            let (text, pkgs) = crate::props::c04::document_and_packages(c);
            let mut st = Stages::default();
            let r = front_end(&text, &pkgs, &mut st);
            outcome_of(&text, r, &st, true, vec!["semantic-program".into()])
        },
    );

    // depth ladder
    let depths: &[usize] = if tier == Tier::Quick { &[10, 100, 1000, 10_000, 100_000] } else { &[10, 100, 1000, 3000, 10_000, 30_000, 100_000, 1_000_000] };
    let mut ladder = vec![];
    for k in NEST_KINDS {
        for d in depths {
            ladder.push(DepthCase { kind: k.to_string(), depth: *d });
        }
    }
    run.enumerate(&ladder, check_depth);
    run.floor("reached-resolve-ok", 50);
    run.floor("reached-encode-ok", 20);
    run.floor("decode-ok", 20);
    run.finish()
}

/// Packages for `check probe-fe`: every package of every fixture (first definition of a name wins).
pub fn probe_packages() -> Vec<(String, Option<semver::Version>, Vec<u8>)> {
    let mut out: Vec<(String, Option<semver::Version>, Vec<u8>)> = vec![];
    for f in fixtures() {
        for (n, v, b) in &f.packages {
            if !out.iter().any(|(n2, v2, _)| n2 == n && v2 == v) {
                out.push((n.clone(), v.clone(), b.clone()));
            }
        }
    }
    out
}


/// Two declarations under one name, every ordered pair of kinds, per scope.
pub fn collision_docs() -> Vec<String> {
    let iface_items: &[&str] = &["x: func();", "type x = u8;", "record x { a: u8 }", "variant x { a }", "enum x { a }", "flags x { a }", "resource x { }", "use other.{x};", "use other.{y as x};", "resource x { constructor(); x: func(); }"];
    let world_items: &[&str] = &[
        "import x: func();",
        "export x: func();",
        "import x: interface { f: func(); };",
        "export x: interface { f: func(); };",
        "type x = u8;",
        "record x { a: u8 }",
        "variant x { a }",
        "enum x { a }",
        "flags x { a }",
        "resource x { }",
        "use other.{x};",
        "use other.{y as x};",
        "import other;",
        "include w0;",
    ];
    let top_items: &[&str] = &["type x = u8;", "record x { a: u8 }", "interface x { }", "world x { }", "import x: func();", "let x = new a:b { ... };", "type x = func();", "variant x { a }", "enum x { a }", "flags x { a }", "resource x { }"];
    let pre = "package test:comp;\ninterface other { type x = u8; type y = u8; }\nworld w0 { import x: func(); }\n";
    let mut out = vec![];
    for a in iface_items {
        for b in iface_items {
            out.push(format!("{pre}interface i {{ {a} {b} }}\n"));
        }
    }
    for a in world_items {
        for b in world_items {
            out.push(format!("{pre}world w {{ {a} {b} }}\n"));
        }
    }
    for a in top_items {
        for b in top_items {
            out.push(format!("package test:comp;\n{a}\n{b}\n"));
        }
    }
    out
}


/// Packages whose implicit imports meet on one name / one semver track, and every ordered pair and
/// triple of instantiations of them.
pub fn conflict_docs() -> (Vec<(String, Option<semver::Version>, Vec<u8>)>, Vec<String>) {
    let wats: &[(&str, &str)] = &[
        ("a", r#"(component (import "foo:dep/types@1.0.0" (instance (export "f" (func)))))"#),
        ("b", r#"(component (import "foo:dep/types@1.1.0" (instance (export "f" (func (param "x" u32))))))"#),
        ("c", r#"(component (import "foo:dep/types@1.0.0" (instance (export "f" (func (param "x" u32))))))"#),
        ("d", r#"(component (import "foo:dep/types@1.1.0" (instance (export "f" (func)) (export "g" (func)))))"#),
        ("e", r#"(component (import "foo:dep/types@2.0.0" (instance (export "f" (func (param "x" string))))))"#),
        ("f", r#"(component (import "foo:dep/types@1.1.0" (func)))"#),
        ("g", r#"(component (import "f" (func)) (import "foo:dep/types@1.2.0" (instance (export "t" (type (sub resource))))))"#),
        ("h", r#"(component (import "f" (func (param "x" u32))) (import "foo:dep/types@1.0.0" (instance (type $u (record (field "a" u8))) (export "t" (type (eq $u))))))"#),
        ("i", r#"(component (import "f" (instance)) (import "foo:dep/types@1.0.1" (component)))"#),
        ("u", r#"(component (import "url=<https://user@example.com/x>" (func)) (import "locked-dep=<a:b/c@1.0.0>" (func)) (import "unlocked-dep=<a:b/x@{>=1.0.0}>" (func)) (import "a:b/x@1.0.0" (instance)))"#),
    ];
    let pkgs: Vec<(String, Option<semver::Version>, Vec<u8>)> = wats.iter().map(|(n, w)| (format!("foo:{n}"), None, wat::parse_str(w).unwrap_or_else(|e| {
        eprintln!("BROKEN-CHECK: conflict wat {n} does not assemble: {e}");
        std::process::exit(2)
    }))).collect();
    let mut docs = vec![];
    let names: Vec<&str> = wats.iter().map(|w| w.0).collect();
    for a in &names {
        for b in &names {
            if a != b {
                docs.push(format!("package test:comp;\nlet x = new foo:{a} {{ ... }};\nlet y = new foo:{b} {{ ... }};\n"));
                for c in &names {
                    if c != a && c != b {
                        docs.push(format!("package test:comp;\nlet x = new foo:{a} {{ ... }};\nlet y = new foo:{b} {{ ... }};\nlet z = new foo:{c} {{ ... }};\n"));
                    }
                }
            }
        }
    }
    // argument names given as identifiers against extern names with `@` and `/` in unusual places
    for arg in ["x", "c", "example", "f", "x@1"] {
        docs.push(format!("package test:comp;\nimport f: func();\nlet i = new foo:u {{ {arg}: f, ... }};\n"));
        docs.push(format!("package test:comp;\nimport {arg}: func();\nlet i = new foo:u {{ {arg}, ... }};\n"));
        docs.push(format!("package test:comp;\nlet i = new foo:u {{ ... }};\nlet j = i.{arg};\n"));
    }
    // explicit imports on the semver track of implicit (or other explicit) imports, with every kind
    let tys = ["func()", "func(x: u32)", "interface { f: func(); }", "interface { f: func(x: u32); }"];
    let vers = ["foo:dep/types@1.0.0", "foo:dep/types@1.1.0", "foo:dep/types@1.2.0", "foo:dep/types@2.0.0", "f"];
    for t in tys {
        for v in vers {
            for a in &names {
                docs.push(format!("package test:comp;\nimport q as \"{v}\": {t};\nlet x = new foo:{a} {{ ... }};\n"));
                docs.push(format!("package test:comp;\nlet x = new foo:{a} {{ ... }};\nimport q as \"{v}\": {t};\n"));
            }
            for t2 in tys {
                for v2 in vers {
                    if v != v2 {
                        docs.push(format!("package test:comp;\nimport q as \"{v}\": {t};\nimport r as \"{v2}\": {t2};\n"));
                    }
                }
            }
        }
    }
    (pkgs, docs)
}


/// Components built by the reference toolchain from worlds that `use` types at world level, and documents
/// that instantiate one or two of them (both dependency modes are encoded by `front_end`).
pub fn world_use_docs() -> (Vec<(String, Option<semver::Version>, Vec<u8>)>, Vec<String>) {
    let api = "package lib:api;\ninterface i0 { resource r { constructor(); m: func(); } record rec { a: u8 } type t = list<rec>; f: func(x: borrow<r>) -> own<r>; }\ninterface i1 { use i0.{r, rec}; g: func(x: rec) -> r; }\n".to_string();
    let worlds: &[&str] = &[
        "use lib:api/i0.{r}; import f: func(x: borrow<r>);",
        "use lib:api/i0.{r}; import f: func(x: r) -> r;",
        "use lib:api/i0.{r}; export g: func(x: borrow<r>);",
        "use lib:api/i0.{r as q}; import f: func(x: borrow<q>); export g: func() -> q;",
        "use lib:api/i0.{rec}; import f: func(x: rec) -> list<rec>;",
        "use lib:api/i0.{rec as other, t}; export g: func(x: other) -> t;",
        "use lib:api/i0.{r}; use lib:api/i1.{rec}; import f: func(x: borrow<r>, y: rec); export lib:api/i1;",
        "use lib:api/i0.{r}; import lib:api/i0; export lib:api/i1; export g: func(x: r);",
        "use lib:api/i0.{r}; import i: interface { use lib:api/i0.{r}; h: func(x: borrow<r>); }",
        "use lib:api/i1.{r}; import f: func(x: borrow<r>);",
    ];
    let mut pkgs = vec![];
    for (k, w) in worlds.iter().enumerate() {
        let text = format!("package test:wu{k};\nworld w {{ {w} }}\n");
        match crate::gen::wit::build_component(&[api.clone()], &text) {
            Ok(b) => pkgs.push((format!("test:wu{k}"), None, b)),
            Err(e) => {
                eprintln!("BROKEN-CHECK: world-level use component {k} is rejected by the reference toolchain: {e}");
                std::process::exit(2)
            }
        }
    }
    let mut docs = vec![];
    for a in 0..pkgs.len() {
        docs.push(format!("package test:comp;\nlet x = new test:wu{a} {{ ... }};\n"));
        docs.push(format!("package test:comp;\nlet x = new test:wu{a} {{ ... }};\nexport x...;\n"));
        for b in 0..pkgs.len() {
            if a != b {
                docs.push(format!("package test:comp;\nlet x = new test:wu{a} {{ ... }};\nlet y = new test:wu{b} {{ ... }};\n"));
            }
        }
    }
    (pkgs, docs)
}
