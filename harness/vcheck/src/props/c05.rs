//! C05 — WIT declarations in WAC mean what WIT means.

use crate::engine::*;
use crate::gen::wit::*;
use proptest::prelude::*;
use serde::{Deserialize, Serialize};
use serde_json::json;
use std::collections::BTreeSet;
use std::fmt::Write as _;
use wac_graph::EncodeOptions;
use wac_parser::Document;
use wasmparser::component_types::{ComponentAnyTypeId, ComponentEntityType};

#[derive(Clone, Debug, Serialize, Deserialize)]
pub struct WorldSpec {
    pub comp: CompSpec,
    /// (which earlier world, renames: (which named item, apply?))
    pub includes: Vec<(u16, Vec<(u16, bool)>)>,
}

#[derive(Clone, Debug, Serialize, Deserialize)]
pub struct Case {
    pub api: ApiSpec,
    pub versioned: bool,
    pub worlds: Vec<WorldSpec>,
    /// drop the interface tag from type names, so that different interfaces declare types of one name
    #[serde(default)]
    pub collide: bool,
}

#[derive(Clone, Debug)]
enum WItem {
    ImportIface(usize),
    ExportIface(usize),
    ImportFunc(String, FuncSig),
    ExportFunc(String, FuncSig),
    ImportInline(String, Vec<Item>),
    ExportInline(String, Vec<Item>),
    Include(usize, Vec<(String, String)>),
}

struct Model {
    api: ApiPkg,
    worlds: Vec<Vec<WItem>>,
}

fn model(c: &Case) -> Model {
    let lib = build_lib(&LibSpec { api: c.api.clone(), versions: if c.versioned { 1 } else { 0 }, comps: c.worlds.iter().map(|w| w.comp.clone()).collect() });
    let api = lib.apis[0].clone();
    let mut worlds: Vec<Vec<WItem>> = vec![];
    // named items visible in each world after includes: (is_import, name)
    let mut named: Vec<Vec<(bool, String)>> = vec![];
    for (k, comp) in lib.comps.iter().enumerate() {
        let mut items = vec![];
        let mut names: Vec<(bool, String)> = vec![];
        for (j, (which, renames)) in c.worlds[k].includes.iter().enumerate() {
            if k == 0 {
                break;
            }
            let src = (*which as usize * k) >> 16;
            if items.iter().any(|i| matches!(i, WItem::Include(s, _) if *s == src)) {
                continue;
            }
            let avail = named[src].clone();
            let mut with = vec![];
            for (r, (pick, apply)) in renames.iter().enumerate() {
                if !*apply || avail.is_empty() {
                    continue;
                }
                let (_, n) = &avail[(*pick as usize * avail.len()) >> 16];
                if with.iter().any(|(a, _): &(String, String)| a == n) {
                    continue;
                }
                with.push((n.clone(), format!("rn{k}x{j}x{r}")));
            }
            for (imp, n) in &avail {
                let n2 = with.iter().find(|(a, _)| a == n).map(|(_, b)| b.clone()).unwrap_or_else(|| n.clone());
                if !names.contains(&(*imp, n2.clone())) {
                    names.push((*imp, n2));
                }
            }
            items.push(WItem::Include(src, with));
        }
        for it in &comp.items {
            let it = match it {
                WorldItem::ImportIface(_, i) => WItem::ImportIface(*i),
                WorldItem::ExportIface(_, i) => WItem::ExportIface(*i),
                WorldItem::ImportFunc(n, s) => WItem::ImportFunc(format!("{n}w{k}"), s.clone()),
                WorldItem::ExportFunc(n, s) => WItem::ExportFunc(format!("{n}w{k}"), s.clone()),
                WorldItem::ImportInline(n, i) => WItem::ImportInline(format!("{n}w{k}"), i.clone()),
                WorldItem::ExportInline(n, i) => WItem::ExportInline(format!("{n}w{k}"), i.clone()),
            };
            match &it {
                WItem::ImportFunc(n, _) | WItem::ImportInline(n, _) => names.push((true, n.clone())),
                WItem::ExportFunc(n, _) | WItem::ExportInline(n, _) => names.push((false, n.clone())),
                _ => {}
            }
            items.push(it);
        }
        worlds.push(items);
        named.push(names);
    }
    Model { api, worlds }
}

/// Render the package. `wac`: WAC syntax (inline interfaces and includes end in `;`). `strip`: interfaces
/// rendered with their type declarations only.
fn render(m: &Model, wac: bool, strip: &BTreeSet<usize>) -> String {
    let pkgs = std::slice::from_ref(&m.api);
    let mut api = m.api.clone();
    for (i, f) in api.ifaces.iter_mut().enumerate() {
        if strip.contains(&i) {
            f.items.retain(|it| !matches!(it, Item::Func { .. }));
            for it in f.items.iter_mut() {
                if let Item::Resource { ctor, methods, .. } = it {
                    *ctor = None;
                    methods.clear();
                }
            }
        }
    }
    let mut out = render_api(std::slice::from_ref(&api), 0);
    let _ = pkgs;
    let close = if wac { "    };\n" } else { "    }\n" };
    for (k, items) in m.worlds.iter().enumerate() {
        let _ = writeln!(out, "world w{k} {{");
        for it in items {
            match it {
                WItem::ImportIface(i) => {
                    let _ = writeln!(out, "    import {};", m.api.ifaces[*i].name);
                }
                WItem::ExportIface(i) => {
                    let _ = writeln!(out, "    export {};", m.api.ifaces[*i].name);
                }
                WItem::ImportFunc(n, s) => {
                    let _ = writeln!(out, "    import {n}: {};", s.wit());
                }
                WItem::ExportFunc(n, s) => {
                    let _ = writeln!(out, "    export {n}: {};", s.wit());
                }
                WItem::ImportInline(n, its) | WItem::ExportInline(n, its) => {
                    let _ = writeln!(out, "    {} {n}: interface {{", if matches!(it, WItem::ImportInline(..)) { "import" } else { "export" });
                    let w = render_world(std::slice::from_ref(&m.api), &Comp { name: "x:y".into(), version: None, items: vec![WorldItem::ImportInline("q".into(), its.clone())] });
                    for l in w.lines().skip(4) {
                        if l == "    }" {
                            break;
                        }
                        out.push_str(l);
                        out.push('\n');
                    }
                    out.push_str(close);
                }
                WItem::Include(src, with) => {
                    if with.is_empty() {
                        let _ = writeln!(out, "    include w{src};");
                    } else {
                        let _ = writeln!(out, "    include w{src} with {{ {} }}{}", with.iter().map(|(a, b)| format!("{a} as {b}")).collect::<Vec<_>>().join(", "), if wac { ";" } else { "" });
                    }
                }
            }
        }
        out.push_str("}\n\n");
    }
    out
}

fn reference(text: &str) -> Result<Vec<u8>, String> {
    match guarded(|| {
        let mut resolve = wit_parser::Resolve::default();
        let id = resolve.push_str("p.wit", text).map_err(|e| format!("wit-parser rejected the package: {e:#}\n{text}"))?;
        wit_component::encode(&resolve, id).map_err(|e| format!("wit-component: {e:#}"))
    }) {
        Ok(r) => r,
        Err(p) => Err(format!("reference toolchain panicked: {p}")),
    }
}

/// interfaces a world reaches only through `use` (not imported/exported by name, directly or via include)
fn used_only(m: &Model, k: usize) -> BTreeSet<usize> {
    fn direct(m: &Model, k: usize, out: &mut BTreeSet<usize>) {
        for it in &m.worlds[k] {
            match it {
                WItem::ImportIface(i) | WItem::ExportIface(i) => {
                    out.insert(*i);
                }
                WItem::Include(s, _) => direct(m, *s, out),
                _ => {}
            }
        }
    }
    let mut d = BTreeSet::new();
    direct(m, k, &mut d);
    let mut all = d.clone();
    let mut todo: Vec<usize> = d.iter().cloned().collect();
    while let Some(i) = todo.pop() {
        for it in &m.api.ifaces[i].items {
            if let Item::Use { from, .. } = it {
                if all.insert(from.1) {
                    todo.push(from.1);
                }
            }
        }
    }
    all.difference(&d).cloned().collect()
}

/// explicit (imports, exports) of world k by extern name, includes expanded
fn explicit_names(m: &Model, k: usize) -> (BTreeSet<String>, BTreeSet<String>) {
    let mut out = (BTreeSet::new(), BTreeSet::new());
    for it in &m.worlds[k] {
        match it {
            WItem::ImportIface(i) => {
                out.0.insert(m.api.iface_path(*i));
            }
            WItem::ExportIface(i) => {
                out.1.insert(m.api.iface_path(*i));
            }
            WItem::ImportFunc(n, _) | WItem::ImportInline(n, _) => {
                out.0.insert(n.clone());
            }
            WItem::ExportFunc(n, _) | WItem::ExportInline(n, _) => {
                out.1.insert(n.clone());
            }
            WItem::Include(s, with) => {
                let inner = explicit_names(m, *s);
                let rn = |n: &String| with.iter().find(|(a, _)| a == n).map(|(_, b)| b.clone()).unwrap_or_else(|| n.clone());
                out.0.extend(inner.0.iter().map(rn));
                out.1.extend(inner.1.iter().map(rn));
            }
        }
    }
    out
}

/// does the named explicit item of world k (or anything it uses) declare or use a resource?
fn item_has_resources(m: &Model, k: usize, name: &str) -> bool {
    fn iface_res(m: &Model, i: usize, seen: &mut BTreeSet<usize>) -> bool {
        if !seen.insert(i) {
            return false;
        }
        m.api.ifaces[i].items.iter().any(|it| match it {
            Item::Resource { .. } => true,
            Item::Use { from, .. } => iface_res(m, from.1, seen),
            _ => false,
        })
    }
    for it in &m.worlds[k] {
        match it {
            WItem::ImportIface(i) | WItem::ExportIface(i) if m.api.iface_path(*i) == name => return iface_res(m, *i, &mut BTreeSet::new()),
            WItem::ImportInline(n, its) | WItem::ExportInline(n, its) if n == name => return its.iter().any(|x| matches!(x, Item::Resource { .. })),
            WItem::Include(s, with) => {
                let orig = with.iter().find(|(_, b)| b == name).map(|(a, _)| a.as_str()).unwrap_or(name);
                if item_has_resources(m, *s, orig) {
                    return true;
                }
            }
            _ => {}
        }
    }
    false
}

/// the validator's relation; `None` when the reference implementation itself panics (seen: an internal
/// assertion in `register_type_renamings` when one type is exported twice)
fn rel(a: &ComponentEntityType, b: &ComponentEntityType, tr: wasmparser::types::TypesRef<'_>) -> Option<bool> {
    guarded(|| ComponentEntityType::is_subtype_of(a, tr, b, tr)).ok()
}

struct Pair {
    outer: Vec<u8>,
}

fn exported_component(tr: wasmparser::types::TypesRef<'_>, comp: wasmparser::component_types::ComponentTypeId, name: &str) -> Option<ComponentEntityType> {
    match tr[comp].exports.get(name)? {
        ComponentEntityType::Type { referenced: ComponentAnyTypeId::Component(id), .. } => Some(ComponentEntityType::Component(*id)),
        _ => None,
    }
}

fn check(c: &Case) -> Outcome {
    let mut clash = false;
    let mut o = check_inner(c, &mut clash);
    if clash {
        if let Verdict::Fail { sig, .. } = &mut o.verdict {
            if !sig.ends_with(":resource-name-clash") {
                sig.push_str(":resource-name-clash");
            }
        }
    }
    o
}

fn check_inner(c: &Case, clash_out: &mut bool) -> Outcome {
    let m = model(c);
    let none = BTreeSet::new();
    let untag = |t: String| -> String {
        if !c.collide {
            return t;
        }
        // rec0x1 -> recx1 (same for var/enm/flg/als/res)
        let b = t.as_bytes();
        let mut out = String::with_capacity(t.len());
        let mut i = 0;
        while i < b.len() {
            let rest = &t[i..];
            let hit = ["rec", "var", "enm", "flg", "als", "res"].iter().find(|p| rest.starts_with(**p) && (i == 0 || !b[i - 1].is_ascii_alphanumeric()));
            if let Some(p) = hit {
                let digits = rest[3..].bytes().take_while(|c| c.is_ascii_digit()).count();
                if digits > 0 && rest[3 + digits..].starts_with('x') {
                    out.push_str(p);
                    i += 3 + digits;
                    continue;
                }
            }
            let ch = rest.chars().next().unwrap();
            out.push(ch);
            i += ch.len_utf8();
        }
        out
    };
    // per interface: the names it declares or uses locally (after untagging) and the original names of its resources
    let mut local_dup = false;
    let mut resource_name_clash = false;
    for f in &m.api.ifaces {
        let mut names: Vec<String> = vec![];
        let mut res: Vec<(String, Option<(usize, String)>)> = vec![];
        for it in &f.items {
            match it {
                Item::Type { name, .. } => names.push(untag(name.clone())),
                Item::Resource { name, .. } => {
                    names.push(untag(name.clone()));
                    res.push((untag(name.clone()), None));
                }
                Item::Use { from, names: ns } => {
                    for (n, r) in ns {
                        names.push(untag(r.clone().unwrap_or_else(|| n.clone())));
                        // follow the chain to the declaring interface
                        let (mut fi, mut nn) = (from.1, n.clone());
                        loop {
                            let src = &m.api.ifaces[fi];
                            if src.items.iter().any(|x| matches!(x, Item::Resource { name, .. } if *name == nn)) {
                                res.push((untag(nn.clone()), Some((fi, nn.clone()))));
                                break;
                            }
                            let next = src.items.iter().find_map(|x| match x {
                                Item::Use { from, names } => names.iter().find(|(a, b)| b.as_ref().unwrap_or(a) == &nn).map(|(a, _)| (from.1, a.clone())),
                                _ => None,
                            });
                            match next {
                                Some((a, b)) => {
                                    fi = a;
                                    nn = b;
                                }
                                None => break,
                            }
                        }
                    }
                }
                Item::Func { .. } => {}
            }
        }
        let mut sorted = names.clone();
        sorted.sort();
        sorted.dedup();
        if sorted.len() != names.len() {
            local_dup = true;
        }
        for (i, (n, id)) in res.iter().enumerate() {
            if res.iter().skip(i + 1).any(|(n2, id2)| n2 == n && id2 != id) {
                resource_name_clash = true;
            }
        }
    }
    *clash_out = resource_name_clash;
    if local_dup {
        // one interface would declare a name twice: not a meaningful package
        return Outcome::pass().label("skipped:duplicate-name-in-interface");
    }
    let wit = untag(render(&m, false, &none));
    let wac = untag(render(&m, true, &none));
    let r1 = match reference(&wit) {
        Ok(b) => b,
        Err(e) => return Outcome::gen_invalid(e),
    };
    let has_chain = m.api.ifaces.iter().any(|f| f.items.iter().any(|it| matches!(it, Item::Use { from, .. } if m.api.ifaces[from.1].items.iter().any(|x| matches!(x, Item::Use { .. })))));
    let has_methods = m.api.ifaces.iter().any(|f| f.items.iter().any(|it| matches!(it, Item::Resource { methods, ctor, .. } if !methods.is_empty() || ctor.is_some())));
    let has_include_with = m.worlds.iter().any(|w| w.iter().any(|i| matches!(i, WItem::Include(_, w) if !w.is_empty())));
    let has_include = m.worlds.iter().any(|w| w.iter().any(|i| matches!(i, WItem::Include(..))));
    let has_rename = m.api.ifaces.iter().any(|f| f.items.iter().any(|it| matches!(it, Item::Use { names, .. } if names.iter().any(|n| n.1.is_some()))));
    let res_rename = m.api.ifaces.iter().any(|f| f.items.iter().any(|it| matches!(it, Item::Use { from, names } if names.iter().any(|n| n.1.is_some() && m.api.ifaces[from.1].type_names().iter().any(|(t, r)| *r && t == &n.0)))));
    let mut o = Outcome::pass().nontrivial(has_chain || has_methods || has_include_with).rendered(json!({"wac": wac}));
    for (b, l) in [(has_chain, "use-chain"), (has_methods, "resource-with-methods"), (has_include_with, "include-with"), (has_include, "include"), (has_rename, "use-rename"), (res_rename, "use-resource-rename"), (c.versioned, "versioned-package"), (c.collide, "colliding-type-names")] {
        if b {
            o = o.label(l);
        }
    }
    // ---- wac
    let doc = match guarded(|| Document::parse(&wac)) {
        Ok(Ok(d)) => d,
        Ok(Err(e)) => return o.with_verdict(Verdict::Fail { sig: "C05/wac-does-not-parse".into(), msg: format!("the reference toolchain accepts the package, wac does not parse it: {e:?}\n{wac}") }),
        Err(p) => return o.with_verdict(Verdict::Fail { sig: format!("C05/panic:parse:{}", panic_sig(&p)), msg: p }),
    };
    let out = match guarded(|| doc.resolve(Default::default())) {
        Err(p) => return o.with_verdict(Verdict::Fail { sig: format!("C05/panic:resolve:{}", panic_sig(&p)), msg: format!("resolve panicked: {p}\n{wac}") }),
        Ok(Err(e)) => {
            let variant = format!("{e:?}");
            let variant = variant.split(|c: char| !c.is_alphanumeric()).next().unwrap_or("").to_string();
            return o.with_verdict(Verdict::Fail { sig: format!("C05/wac-rejects:{variant}"), msg: format!("the reference toolchain accepts the package, wac resolution rejects it: {e:?}\n{wac}") });
        }
        Ok(Ok(r)) => match guarded(|| r.encode(EncodeOptions { define_components: true, validate: false, processor: None })) {
            Ok(Ok(b)) => b,
            Ok(Err(e)) => return o.with_verdict(Verdict::Fail { sig: "C05/wac-encode-error".into(), msg: format!("encode failed: {e:#}\n{wac}") }),
            Err(p) => return o.with_verdict(Verdict::Fail { sig: format!("C05/panic:encode:{}", panic_sig(&p)), msg: format!("encode panicked: {p}\n{wac}") }),
        },
    };
    let pair = |a: &[u8], b: &[u8]| -> Pair {
        let mut outer = wasm_encoder::Component::new();
        outer.section(&wasm_encoder::RawSection { id: 4, data: a });
        outer.section(&wasm_encoder::RawSection { id: 4, data: b });
        Pair { outer: outer.finish() }
    };
    let p1 = pair(&r1, &out);
    let mut v = wasmparser::Validator::new_with_features(wasmparser::WasmFeatures::all());
    let types = match v.validate_all(&p1.outer) {
        Ok(t) => t,
        Err(e) => {
            // which side is invalid?
            let mut v2 = wasmparser::Validator::new_with_features(wasmparser::WasmFeatures::all());
            if v2.validate_all(&r1).is_err() {
                return o.with_verdict(Verdict::GenInvalid(format!("reference encoding invalid: {e}")));
            }
            return o.with_verdict(Verdict::Fail { sig: format!("C05/wac-output-invalid:{}", crate::props::c01::msg_class(&e.to_string())), msg: format!("wac's encoding does not validate: {e}\n{wac}") });
        }
    };
    let tr = types.as_ref();
    let (rc, wc) = (tr.component_at(0), tr.component_at(1));
    let mut comparisons = 0u64;
    // same exported names
    let rn: BTreeSet<&String> = tr[rc].exports.keys().collect();
    let wn: BTreeSet<&String> = tr[wc].exports.keys().collect();
    comparisons += 1;
    if rn != wn {
        return o.with_verdict(Verdict::Fail { sig: "C05/exported-names-differ".into(), msg: format!("reference exports {rn:?}, wac exports {wn:?}\n{wac}") });
    }
    for f in &m.api.ifaces {
        let (Some(a), Some(b)) = (exported_component(tr, rc, &f.name), exported_component(tr, wc, &f.name)) else {
            return o.with_verdict(Verdict::Fail { sig: "C05/interface-not-exported-as-type".into(), msg: format!("interface {} is not exported as a component type on both sides\n{wac}", f.name) });
        };
        comparisons += 2;
        let (Some(ab), Some(ba)) = (rel(&a, &b, tr), rel(&b, &a, tr)) else { return o.with_verdict(Verdict::Tolerated("reference-relation-panicked")) };
        if !(ab && ba) {
            let uses_res_rename = f.items.iter().any(|it| matches!(it, Item::Use { from, names } if names.iter().any(|n| n.1.is_some() && m.api.ifaces[from.1].type_names().iter().any(|(t, r)| *r && t == &n.0))));
            return o.with_verdict(Verdict::Fail {
                sig: format!("C05/interface-differs:{}{}{}{}", if ab { "" } else { "ref-not<:wac" }, if ba { "" } else { ":wac-not<:ref" }, if uses_res_rename { ":use-resource-rename" } else { "" }, if resource_name_clash { ":resource-name-clash" } else { "" }),
                msg: format!("interface `{}`: reference <: wac is {ab}, wac <: reference is {ba}\n{wac}", f.name),
            });
        }
    }
    for k in 0..m.worlds.len() {
        let name = format!("w{k}");
        let (Some(a), Some(b)) = (exported_component(tr, rc, &name), exported_component(tr, wc, &name)) else {
            return o.with_verdict(Verdict::Fail { sig: "C05/world-not-exported-as-type".into(), msg: format!("world {name} is not exported as a component type on both sides\n{wac}") });
        };
        comparisons += 2;
        let (Some(ab), Some(ba)) = (rel(&a, &b, tr), rel(&b, &a, tr)) else { return o.with_verdict(Verdict::Tolerated("reference-relation-panicked")) };
        if ab && ba {
            o = o.label("world-matches-R1");
            continue;
        }
        // R2: interfaces reached only through `use` reduced to their types
        let strip = used_only(&m, k);
        let mut ok2 = false;
        let mut detail = String::new();
        if !strip.is_empty() {
            match reference(&untag(render(&m, false, &strip))) {
                Ok(r2) => {
                    let p2 = pair(&r2, &out);
                    let mut v = wasmparser::Validator::new_with_features(wasmparser::WasmFeatures::all());
                    if let Ok(t2) = v.validate_all(&p2.outer) {
                        let tr2 = t2.as_ref();
                        if let (Some(a2), Some(b2)) = (exported_component(tr2, tr2.component_at(0), &name), exported_component(tr2, tr2.component_at(1), &name)) {
                            comparisons += 2;
                            let ab2 = rel(&a2, &b2, tr2).unwrap_or(false);
                            let ba2 = rel(&b2, &a2, tr2).unwrap_or(false);
                            ok2 = ab2 && ba2;
                            detail = format!("; against the types-only reference: reference <: wac {ab2}, wac <: reference {ba2}");
                        }
                    }
                }
                Err(e) => detail = format!("; types-only reference not built: {}", e.lines().next().unwrap_or("")),
            }
        }
        if ok2 {
            o = o.label("world-matches-R2");
            continue;
        }
        // The statement only speaks of the explicit imports and exports: compare them item by item. The validator's
        // relation cannot judge an item in isolation when it carries resources (it does not open them).
        let (ComponentEntityType::Component(ra), ComponentEntityType::Component(wa)) = (a, b) else { unreachable!() };
        let (Some(ComponentEntityType::Component(ra)), Some(ComponentEntityType::Component(wa))) = (tr[ra].exports.values().next().cloned(), tr[wa].exports.values().next().cloned()) else {
            return o.with_verdict(Verdict::Fail { sig: "C05/world-not-exported-as-type".into(), msg: format!("world {name} does not wrap a component type on both sides\n{wac}") });
        };
        let explicit = explicit_names(&m, k);
        let implicit_ok = |ty: wasmparser::component_types::ComponentTypeId| tr[ty].imports.keys().all(|n| explicit.0.contains(n) || m.api.ifaces.iter().enumerate().any(|(i, _)| &m.api.iface_path(i) == n));
        comparisons += 2;
        let rn: BTreeSet<String> = tr[ra].imports.keys().filter(|n| explicit.0.contains(*n)).cloned().collect();
        let wn: BTreeSet<String> = tr[wa].imports.keys().filter(|n| explicit.0.contains(*n)).cloned().collect();
        let re: BTreeSet<String> = tr[ra].exports.keys().cloned().collect();
        let we: BTreeSet<String> = tr[wa].exports.keys().cloned().collect();
        let inc = m.worlds[k].iter().any(|i| matches!(i, WItem::Include(..)));
        let sfx = if inc { ":include" } else { "" };
        if rn != explicit.0 || re != explicit.1 {
            return o.with_verdict(Verdict::GenInvalid(format!("model/reference disagree on the explicit externs of {name}: model {explicit:?}, reference {rn:?}/{re:?}")));
        }
        if wn != explicit.0 || we != explicit.1 || !implicit_ok(wa) {
            return o.with_verdict(Verdict::Fail { sig: format!("C05/world-externs-differ{sfx}"), msg: format!("world `{name}`: explicit imports/exports {explicit:?}; wac has imports {:?} exports {we:?}\n{wac}", tr[wa].imports.keys().collect::<Vec<_>>()) });
        }
        let mut inconclusive = false;
        for (imp, n) in explicit.0.iter().map(|n| (true, n)).chain(explicit.1.iter().map(|n| (false, n))) {
            let (x, y) = if imp { (tr[ra].imports[n.as_str()].clone(), tr[wa].imports[n.as_str()].clone()) } else { (tr[ra].exports[n.as_str()].clone(), tr[wa].exports[n.as_str()].clone()) };
            comparisons += 2;
            let (Some(xy), Some(yx)) = (rel(&x, &y, tr), rel(&y, &x, tr)) else { return o.with_verdict(Verdict::Tolerated("reference-relation-panicked")) };
            if xy && yx {
                continue;
            }
            if item_has_resources(&m, k, n) {
                inconclusive = true;
                continue;
            }
            return o.with_verdict(Verdict::Fail {
                sig: format!("C05/world-item-differs:{}{}{}{sfx}", if imp { "import" } else { "export" }, if xy { "" } else { ":ref-not<:wac" }, if yx { "" } else { ":wac-not<:ref" }),
                msg: format!("world `{name}`, {} `{n}`: reference <: wac is {xy}, wac <: reference is {yx}{detail}\n{wac}", if imp { "import" } else { "export" }),
            });
        }
        if inconclusive {
            return o.with_verdict(Verdict::Tolerated("T8"));
        }
        o = o.label("world-matches-per-item");
    }
    o.comparisons(comparisons)
}

fn worldspec_strategy() -> impl Strategy<Value = WorldSpec> {
    (compspec_strategy(), proptest::collection::vec((any::<u16>(), proptest::collection::vec((any::<u16>(), any::<bool>()), 0..3)), 0..3)).prop_map(|(mut comp, includes)| {
        comp.versioned = false;
        WorldSpec { comp, includes }
    })
}

pub fn run(tier: Tier, seed: u64, replay: Option<&std::path::Path>) -> i32 {
    let mut run = Run::new(
        "C05",
        tier,
        seed,
        "exploration",
        "one package text inside the shared WIT/WAC subset: 1-4 interfaces (records, variants, enums, flags, aliases, resources with constructors/methods/statics, borrows, functions, `use` with renames incl. chains and diamonds) and 0-3 worlds (imports/exports of the package's interfaces, bare functions, inline interfaces, `include` of earlier worlds with and without `with` renames), unversioned or versioned. The same text (up to `;` after inline interfaces and includes) is encoded by wit-parser + wit-component and by wac (parse, resolve without packages, encode). Both binaries are nested in one outer component and every exported interface/world type is compared with the validator's own component subtyping in both directions; worlds may instead match the reference encoding of the package in which interfaces reached only through `use` are reduced to their types (R2). Non-trivial = a use chain, a resource with constructor/methods, or an include with renames. Distinct by JSON hash.",
    );
    if let Some(p) = replay {
        run.replay_case::<Case, _>(p, check);
        return run.finish();
    }
    let n = tier.pick(48_000, 1_600_000);
    run.explore(1, 16, n / 16, || (proptest::collection::vec(ifacespec_strategy(6), 1..5), any::<bool>(), proptest::collection::vec(worldspec_strategy(), 0..4), proptest::bool::weighted(0.4)).prop_map(|(ifaces, versioned, worlds, collide)| Case { api: ApiSpec { ifaces }, versioned, worlds, collide }), check);
    for l in ["use-chain", "resource-with-methods", "include-with", "include", "use-rename", "use-resource-rename", "versioned-package", "world-matches-R1", "colliding-type-names"] {
        run.floor(l, 10);
    }
    run.finish()
}
