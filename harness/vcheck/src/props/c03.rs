//! C03 — output imports/exports are exactly those implied; implicit imports are shared; the
//! interface does not depend on node-creation order.

use crate::engine::*;
use crate::gen::ghist::*;
use crate::gen::wit::{Item, Library};
use crate::oracle::wire::{self, Kind, Wire};
use crate::props::c01::{shape, validate};
use crate::props::c02::track_key;
use serde_json::json;
use std::collections::{BTreeMap, BTreeSet};
use wac_graph::{CompositionGraph, EncodeError, EncodeOptions, NodeId, NodeKind};
use wac_types::ItemKind;

fn version_of(name: &str) -> Option<semver::Version> {
    name.split_once('@').and_then(|(_, v)| semver::Version::parse(v).ok())
}

fn highest<'a>(names: impl Iterator<Item = &'a String>) -> Option<String> {
    let mut best: Option<(&String, Option<semver::Version>)> = None;
    for n in names {
        let v = version_of(n);
        match &best {
            None => best = Some((n, v)),
            Some((_, bv)) => {
                if v.as_ref().map(|v| bv.as_ref().map(|b| v.cmp_precedence(b) == std::cmp::Ordering::Greater).unwrap_or(true)).unwrap_or(false) {
                    best = Some((n, v));
                }
            }
        }
    }
    best.map(|(n, _)| n.clone())
}

/// Interfaces (by full path) that the interface `path` depends on through `use`, transitively —
/// computed from the generating WIT model, not from wac.
fn use_closure(lib: &Library, path: &str) -> BTreeSet<String> {
    let mut out = BTreeSet::new();
    for (p, api) in lib.apis.iter().enumerate() {
        for i in 0..api.ifaces.len() {
            if api.iface_path(i) == path {
                let mut stack = vec![(p, i)];
                while let Some((p, i)) = stack.pop() {
                    for it in &lib.apis[p].ifaces[i].items {
                        if let Item::Use { from, .. } = it {
                            if out.insert(lib.apis[from.0].iface_path(from.1)) {
                                stack.push(*from);
                            }
                        }
                    }
                }
            }
        }
    }
    out
}

pub struct Expectation {
    /// track key -> (implicit argument names, explicit import names, dependency names)
    pub groups: BTreeMap<String, (BTreeSet<String>, BTreeSet<String>, BTreeSet<String>)>,
    /// track key -> union of export names the sharers need (only for groups with instance-typed implicit/explicit members)
    pub needs: BTreeMap<String, BTreeSet<String>>,
    pub exact_conflict: bool,
    /// tracks of the interface ids of explicit instance imports (whatever their import name)
    pub explicit_interface_tracks: BTreeSet<String>,
    /// an explicit import's name is on the track of an implicit/used name without being equal to it (T7 area)
    pub explicit_on_track: bool,
    /// an explicit import has the very interface (same id in the type collection) of an unsatisfied argument of another name
    pub explicit_shares_interface: bool,
    /// a used interface is on the track of an unsatisfied argument / explicit import at another version
    pub dep_on_track: bool,
    /// an explicit import of a named interface under another name
    pub explicit_renamed: bool,
}

pub fn expectation(b: &Built) -> Expectation {
    let g = &b.graph;
    let mut groups: BTreeMap<String, (BTreeSet<String>, BTreeSet<String>, BTreeSet<String>)> = BTreeMap::new();
    let mut needs: BTreeMap<String, BTreeSet<String>> = BTreeMap::new();
    let mut implicit_names = BTreeSet::new();
    let mut explicit_names = BTreeSet::new();
    let mut explicit_interface_tracks = BTreeSet::new();
    let mut explicit_renamed = false;
    for n in g.node_ids() {
        match g[n].kind() {
            NodeKind::Instantiation(_) => {
                let pkg = &g[g[n].package().unwrap()];
                // what the *history* designated (every accepted set minus unsets/removals), not the graph's own view
                let satisfied: BTreeSet<String> = b.designated.keys().filter(|(i, _)| *i == n).map(|(_, a)| a.clone()).collect();
                for (name, kind) in g.types()[pkg.ty()].imports.iter() {
                    if satisfied.contains(name) {
                        continue;
                    }
                    implicit_names.insert(name.clone());
                    groups.entry(track_key(name)).or_default().0.insert(name.clone());
                    if let ItemKind::Instance(id) = kind {
                        needs.entry(track_key(name)).or_default().extend(g.types()[*id].exports.keys().cloned());
                    }
                }
            }
            NodeKind::Import(name) => {
                explicit_names.insert(name.clone());
                groups.entry(track_key(name)).or_default().1.insert(name.clone());
                if let ItemKind::Instance(id) = g[n].item_kind() {
                    needs.entry(track_key(name)).or_default().extend(g.types()[id].exports.keys().cloned());
                    if let Some(iid) = &g.types()[id].id {
                        explicit_interface_tracks.insert(track_key(iid));
                        if iid != name {
                            explicit_renamed = true;
                        }
                    }
                }
            }
            _ => {}
        }
    }
    // dependency interfaces of everything imported: by name from the generating WIT model, and by the
    // `uses` provenance of the imported kinds themselves (an explicit import may carry the kind of an
    // interface of another name)
    let all: Vec<String> = groups.values().flat_map(|(a, b, _)| a.iter().chain(b.iter()).cloned()).collect();
    for name in all {
        for dep in use_closure(&b.library, &name) {
            groups.entry(track_key(&dep)).or_default().2.insert(dep);
        }
    }
    let mut stack: Vec<wac_types::InterfaceId> = vec![];
    for n in g.node_ids() {
        match g[n].kind() {
            NodeKind::Instantiation(_) => {
                let pkg = &g[g[n].package().unwrap()];
                let satisfied: BTreeSet<String> = g.get_instantiation_arguments(n).map(|(a, _)| a.to_string()).collect();
                for (name, kind) in g.types()[pkg.ty()].imports.iter() {
                    if let (false, ItemKind::Instance(id)) = (satisfied.contains(name), kind) {
                        stack.push(*id);
                    }
                }
            }
            NodeKind::Import(_) => {
                if let ItemKind::Instance(id) = g[n].item_kind() {
                    stack.push(id);
                }
            }
            _ => {}
        }
    }
    let mut seen = BTreeSet::new();
    while let Some(id) = stack.pop() {
        if !seen.insert(format!("{id}")) {
            continue;
        }
        for used in g.types()[id].uses.values() {
            if let Some(iid) = &g.types()[used.interface].id {
                groups.entry(track_key(iid)).or_default().2.insert(iid.clone());
            }
            stack.push(used.interface);
        }
    }
    let exact_conflict = implicit_names.intersection(&explicit_names).next().is_some();
    let mut implicit_ifaces = BTreeSet::new();
    let mut explicit_ifaces = vec![];
    for n in g.node_ids() {
        match g[n].kind() {
            NodeKind::Instantiation(_) => {
                let pkg = &g[g[n].package().unwrap()];
                let satisfied: BTreeSet<String> = g.get_instantiation_arguments(n).map(|(a, _)| a.to_string()).collect();
                for (name, kind) in g.types()[pkg.ty()].imports.iter() {
                    if let (false, ItemKind::Instance(id)) = (satisfied.contains(name), kind) {
                        implicit_ifaces.insert((format!("{id}"), name.clone()));
                    }
                }
            }
            NodeKind::Import(name) => {
                if let ItemKind::Instance(id) = g[n].item_kind() {
                    explicit_ifaces.push((format!("{id}"), name.clone()));
                }
            }
            _ => {}
        }
    }
    let explicit_shares_interface = explicit_ifaces.iter().any(|(id, name)| implicit_ifaces.iter().any(|(id2, name2)| id == id2 && name != name2));
    let explicit_on_track = groups.values().any(|(i, e, d)| e.iter().any(|n| !i.contains(n) && !d.contains(n)) && (!i.is_empty() || !d.is_empty()));
    let dep_on_track = groups.values().any(|(i, e, d)| d.iter().any(|n| !i.contains(n) && !e.contains(n)) && (!i.is_empty() || !e.is_empty()));
    Expectation { groups, needs, exact_conflict, explicit_interface_tracks, explicit_on_track, explicit_shares_interface, dep_on_track, explicit_renamed }
}

/// The decoded interface of an output: import name -> (kind, instance export names), export name -> kind
pub fn interface_of(w: &Wire) -> (BTreeMap<String, (Kind, Option<BTreeSet<String>>)>, BTreeMap<String, Kind>) {
    let mut imports = BTreeMap::new();
    for i in &w.imports {
        if i.name.starts_with("unlocked-dep=") {
            continue;
        }
        imports.insert(i.name.clone(), (i.kind.unwrap(), i.instance_exports.as_ref().map(|v| v.iter().map(|(n, _)| n.clone()).collect())));
    }
    let exports = w.exports.iter().map(|(n, k, _)| (n.clone(), *k)).collect();
    (imports, exports)
}

pub fn check_interface(b: &Built, w: &Wire) -> Result<(u64, Vec<&'static str>), (String, String)> {
    let exp = expectation(b);
    let (imports, exports) = interface_of(w);
    let mut checks = 0u64;
    let mut labels = vec![];
    let mut by_track: BTreeMap<String, BTreeSet<String>> = BTreeMap::new();
    for name in imports.keys() {
        by_track.entry(track_key(name)).or_default().insert(name.clone());
    }
    // nothing outside the expected groups
    for (track, names) in &by_track {
        checks += 1;
        if !exp.groups.contains_key(track) {
            return Err(("C03/unexpected-import".into(), format!("output imports {names:?}, which no explicit import, unsatisfied argument or used interface accounts for")));
        }
    }
    for (track, (implicit, explicit, deps)) in &exp.groups {
        checks += 1;
        let out = by_track.get(track).cloned().unwrap_or_default();
        let all: BTreeSet<String> = implicit.iter().chain(explicit.iter()).chain(deps.iter()).cloned().collect();
        if out.is_empty() {
            // A used interface is only imported when a remaining import actually mentions its types
            // (the reference toolchain elides unused `use`s, and an explicit import of that very
            // interface under another name can serve as the alias source): optional, never invented.
            if implicit.is_empty() && explicit.is_empty() {
                labels.push("used-interface-not-imported");
                continue;
            }
            return Err(("C03/import-missing".into(), format!("no output import for {all:?} (implicit {implicit:?}, explicit {explicit:?}, used {deps:?})")));
        }
        for n in &out {
            if !all.contains(n) {
                return Err(("C03/import-name-invented".into(), format!("output import `{n}` is on the track of {all:?} but is none of them")));
            }
        }
        if implicit.len() + deps.len() >= 2 || (implicit.len() + deps.len() >= 1 && !explicit.is_empty()) {
            labels.push("shared-import-group");
        }
        if all.len() >= 2 {
            labels.push("versions-on-one-track");
        }
        // Strict when only unsatisfied arguments are on the track: exactly one import, named for the
        // highest version.  When an explicit import or a used interface of another version is on the
        // track too (T7 and its analogue for used interfaces: the statement does not say whether they
        // merge), the output may keep them apart: every name must be one of the candidates and the
        // unsatisfied arguments must be served by an import at least as high as their highest version.
        let named: BTreeSet<String> = implicit.iter().chain(explicit.iter()).cloned().collect();
        if named.is_empty() {
            labels.push("used-interface-imported");
            continue;
        }
        let others: BTreeSet<String> = explicit.iter().chain(deps.iter()).filter(|n| !implicit.contains(*n)).cloned().collect();
        let ok = if others.is_empty() {
            let top = highest(implicit.iter()).unwrap();
            out.len() == 1 && out.contains(&top)
        } else if implicit.is_empty() {
            explicit.iter().all(|e| out.contains(e) || out.iter().any(|o| version_of(o) >= version_of(e)))
        } else {
            let top = highest(implicit.iter()).unwrap();
            out.iter().any(|o| o == &top || version_of(o).zip(version_of(&top)).map(|(a, b)| a.cmp_precedence(&b) != std::cmp::Ordering::Less).unwrap_or(false))
        };
        if !ok {
            return Err((
                format!("C03/import-not-named-for-highest-version{}", if !deps.is_empty() { ":used-interface-on-track" } else { "" }),
                format!("track {track}: output imports {out:?} (implicit {implicit:?}, explicit {explicit:?}, used {deps:?}); expected one import named for the highest version"),
            ));
        }
        // the shared import offers the union of what the sharers need
        if let Some(need) = exp.needs.get(track) {
            if out.len() == 1 {
                let name = out.iter().next().unwrap();
                if let (Kind::Instance, Some(have)) = &imports[name] {
                    checks += 1;
                    // must offer at least the union of what the sharers need; it may offer more when the
                    // same named interface is also required elsewhere (interfaces are unified by id)
                    if !need.is_subset(have) {
                        let missing: Vec<_> = need.difference(have).collect();
                        return Err(("C03/shared-import-not-the-union".into(), format!("import `{name}` offers {have:?}; the sharers need {need:?} (missing {missing:?})")));
                    }
                    if have != need {
                        labels.push("import-offers-more-than-needed");
                    }
                }
            }
        }
    }
    // exports: exactly the designated names, with the designated node's kind
    let want: BTreeMap<String, Kind> = b
        .exports
        .iter()
        .filter(|(n, node)| b.graph.get_export(n) == Some(*node))
        .map(|(n, node)| {
            (
                n.clone(),
                match b.graph[*node].item_kind() {
                    ItemKind::Type(_) => Kind::Type,
                    ItemKind::Func(_) => Kind::Func,
                    ItemKind::Instance(_) => Kind::Instance,
                    ItemKind::Component(_) => Kind::Component,
                    ItemKind::Module(_) => Kind::Module,
                    ItemKind::Value(_) => Kind::Value,
                },
            )
        })
        .collect();
    checks += 1;
    if want != exports {
        return Err(("C03/exports-differ".into(), format!("output exports {exports:?}; designated {want:?}")));
    }
    // agreement with the graph's own listing
    let listed: Vec<(String, bool)> = b.graph.imports().map(|(n, _, id)| (n.to_string(), id.is_some())).collect();
    for (n, _) in &listed {
        checks += 1;
        let on_track = by_track.get(&track_key(n)).map(|s| s.len()).unwrap_or(0);
        if !(imports.contains_key(n) || on_track >= 1) {
            return Err(("C03/listing-disagrees".into(), format!("CompositionGraph::imports() lists `{n}` but the output has no import on its track")));
        }
    }
    for name in imports.keys() {
        checks += 1;
        let t = track_key(name);
        let is_listed = listed.iter().any(|(n, _)| track_key(n) == t);
        let is_dep = exp.groups.get(&t).map(|g| !g.2.is_empty()).unwrap_or(false);
        if !is_listed && !is_dep {
            return Err(("C03/listing-disagrees".into(), format!("output imports `{name}` which CompositionGraph::imports() does not list and no used interface explains")));
        }
    }
    Ok((checks, labels))
}

/// A declarative description of the composition read back through public queries.
struct Decl {
    nodes: Vec<(NodeId, DeclNode)>,
    args: Vec<(NodeId, String, NodeId)>,
    exports: Vec<(String, NodeId)>,
}

enum DeclNode {
    Inst(usize),
    Import(String, ItemKind),
    Alias(NodeId, String),
}

fn describe(b: &Built) -> Decl {
    let g = &b.graph;
    let mut nodes = vec![];
    let mut args = vec![];
    for n in g.node_ids() {
        match g[n].kind() {
            NodeKind::Instantiation(_) => {
                let pid = g[n].package().unwrap();
                nodes.push((n, DeclNode::Inst(b.pkgs.iter().position(|p| p.id == pid).unwrap())));
                for (a, s) in g.get_instantiation_arguments(n) {
                    args.push((n, a.to_string(), s));
                }
            }
            NodeKind::Import(name) => nodes.push((n, DeclNode::Import(name.clone(), g[n].item_kind()))),
            NodeKind::Alias => {
                let (s, e) = g.get_alias_source(n).unwrap();
                nodes.push((n, DeclNode::Alias(s, e.to_string())));
            }
            NodeKind::Definition => {}
        }
    }
    let exports = b.exports.iter().filter(|(n, node)| g.get_export(n) == Some(*node)).cloned().collect();
    Decl { nodes, args, exports }
}

/// Rebuild the composition creating nodes in the order given by `perm` (a permutation seed),
/// respecting dependencies (an alias after its source).
fn rebuild(b: &Built, d: &Decl, perm: u64) -> Result<CompositionGraph, String> {
    // the import kinds refer to the original graph's type collection: re-use a clone of its types by
    // cloning the graph and removing every node (packages stay registered with the same ids)
    let mut g = b.graph.clone();
    let ids: Vec<NodeId> = g.node_ids().collect();
    for n in ids {
        if g.node_ids().any(|x| x == n) {
            g.remove_node(n);
        }
    }
    let mut order: Vec<usize> = (0..d.nodes.len()).collect();
    // deterministic pseudo-shuffle from the seed
    let mut s = perm;
    for i in (1..order.len()).rev() {
        s = splitmix(s);
        order.swap(i, (s % (i as u64 + 1)) as usize);
    }
    let mut map: BTreeMap<NodeId, NodeId> = BTreeMap::new();
    let mut pending: Vec<usize> = order;
    let mut progress = true;
    while !pending.is_empty() && progress {
        progress = false;
        let mut rest = vec![];
        for i in pending {
            let (old, node) = &d.nodes[i];
            match node {
                DeclNode::Inst(p) => {
                    map.insert(*old, g.instantiate(b.pkgs[*p].id));
                    progress = true;
                }
                DeclNode::Import(name, kind) => {
                    map.insert(*old, g.import(name, *kind).map_err(|e| e.to_string())?);
                    progress = true;
                }
                DeclNode::Alias(src, export) => match map.get(src) {
                    Some(ns) => {
                        map.insert(*old, g.alias_instance_export(*ns, export).map_err(|e| e.to_string())?);
                        progress = true;
                    }
                    None => rest.push(i),
                },
            }
        }
        pending = rest;
    }
    if !pending.is_empty() {
        return Err("alias sources could not be ordered".into());
    }
    let mut args: Vec<&(NodeId, String, NodeId)> = d.args.iter().collect();
    if perm % 2 == 1 {
        args.reverse();
    }
    for (i, a, s) in args {
        g.set_instantiation_argument(map[i], a, map[s]).map_err(|e| format!("set argument {a}: {e}"))?;
    }
    for (name, n) in &d.exports {
        g.export(map[n], name).map_err(|e| e.to_string())?;
    }
    Ok(g)
}

fn class_of(r: &Result<Vec<u8>, EncodeError>) -> &'static str {
    match r {
        Ok(_) => "Ok",
        Err(EncodeError::GraphContainsCycle { .. }) => "Cycle",
        Err(EncodeError::ImplicitImportConflict { .. }) => "ImplicitImportConflict",
        Err(EncodeError::ImportTypeMergeConflict { .. }) => "MergeConflict",
        Err(EncodeError::ValidationFailure { .. }) => "ValidationFailure",
    }
}

fn check(case: &GCase) -> Outcome {
    let mut o = check_inner(case);
    // exotic hand-shaped packages (bare top-level type / value / resource imports) are appended to
    // failure signatures so that a recorded finding only covers compositions that register them
    if let Verdict::Fail { sig, msg } = &o.verdict {
        let exotic: Vec<&str> = SHAPED.iter().enumerate().filter(|(i, (n, _))| case.shaped & (1 << i) != 0 && ["shaped:types", "shaped:values", "shaped:resource"].contains(n)).map(|(_, (n, _))| n.trim_start_matches("shaped:")).collect();
        if !exotic.is_empty() {
            o.verdict = Verdict::Fail { sig: format!("{sig}:SH:{}", exotic.join(",")), msg: msg.clone() };
        }
    }
    o
}

fn check_inner(case: &GCase) -> Outcome {
    let b = match execute(case) {
        Ok(b) => b,
        Err(BuildError::Generator(e)) => return Outcome::gen_invalid(e),
        Err(BuildError::Foreign(e)) => return Outcome::foreign(e),
        Err(BuildError::OpPanic(e)) => return Outcome::foreign(format!("graph operation panicked (C06's obligation): {e}")),
    };
    let s = shape(&b.graph);
    let mut o = Outcome::pass().labels(b.labels.iter().map(|s| s.to_string())).rendered(json!({"trace": b.trace, "implicit_imports": s.implicit, "explicit_imports": s.explicit}));
    let opts = EncodeOptions { define_components: true, validate: false, processor: None };
    let r = match guarded(|| b.graph.encode(opts)) {
        Ok(r) => r,
        Err(p) => return o.with_verdict(Verdict::Foreign(format!("encode panicked (C01's obligation): {p}"))),
    };
    let exp = expectation(&b);
    let class = class_of(&r);
    let trace = b.trace.join("\n");
    // the import-conflict error is returned exactly when an explicit import's name equals an unsatisfied argument's name
    if class == "Cycle" {
        return o.with_verdict(Verdict::Foreign("cyclic composition".into()));
    }
    if class == "ValidationFailure" {
        return o.with_verdict(Verdict::Foreign("late validation failure (C01's obligation)".into()));
    }
    if (class == "ImplicitImportConflict") != exp.exact_conflict && class != "MergeConflict" {
        return o.with_verdict(Verdict::Fail {
            sig: "C03/import-conflict-error-mispredicted".into(),
            msg: format!("encode returned {class}; an explicit import with the name of an unsatisfied argument exists = {}\n--- trace ---\n{trace}", exp.exact_conflict),
        });
    }
    let mut comparisons = 1;
    let mut nontrivial = false;
    let mut base_iface = None;
    if let Ok(bytes) = &r {
        // export names are read at section level and do not depend on the output being valid
        if let Ok(w) = wire::decode(bytes) {
            let names: Vec<&String> = w.exports.iter().map(|e| &e.0).collect();
            comparisons += 1;
            if let Some(d) = names.iter().find(|n| names.iter().filter(|m| m == n).count() >= 2) {
                return o.with_verdict(Verdict::Fail { sig: "C03/export-name-emitted-twice".into(), msg: format!("the output exports `{d}` more than once; exports: {names:?}\n--- trace ---\n{trace}") });
            }
            for (name, node) in &b.exports {
                if b.graph.get_export(name) == Some(*node) && !names.contains(&name) {
                    return o.with_verdict(Verdict::Fail { sig: "C03/designated-export-missing".into(), msg: format!("`{name}` is a designated export of the graph but not of the output; exports: {names:?}\n--- trace ---\n{trace}") });
                }
            }
        }
        if validate(bytes).is_err() {
            return o.with_verdict(Verdict::Foreign("output does not validate (C01's obligation)".into()));
        }
        let w = match wire::decode(bytes) {
            Ok(w) => w,
            Err(e) => return o.with_verdict(Verdict::Fail { sig: "C03/output-does-not-decode".into(), msg: e }),
        };
        match check_interface(&b, &w) {
            Ok((n, labels)) => {
                comparisons += n;
                nontrivial = labels.contains(&"shared-import-group");
                o = o.labels(labels.iter().map(|s| s.to_string())).label("interface-checked");
            }
            Err((sig, msg)) => return o.with_verdict(Verdict::Fail { sig, msg: format!("{msg}\n--- trace ---\n{trace}") }),
        }
        base_iface = Some(interface_of(&w));
    } else {
        o = o.label(format!("err-{class}"));
    }
    // metamorphic: node-creation order must not matter
    let d = describe(&b);
    if d.nodes.len() >= 2 {
        for perm in 1..=5u64 {
            let g2 = match guarded(|| rebuild(&b, &d, perm.wrapping_mul(0x9E37_79B9))) {
                Ok(Ok(g)) => g,
                Ok(Err(e)) => return o.with_verdict(Verdict::Fail { sig: "C03/rebuild-rejected".into(), msg: format!("re-creating the same composition in another node order was rejected: {e}\n--- trace ---\n{trace}") }),
                Err(p) => return o.with_verdict(Verdict::Foreign(format!("graph operation panicked while rebuilding (C06's obligation): {p}"))),
            };
            let r2 = match guarded(|| g2.encode(opts)) {
                Ok(r) => r,
                Err(p) => return o.with_verdict(Verdict::Foreign(format!("encode panicked (C01's obligation): {p}"))),
            };
            comparisons += 1;
            // when several documented errors apply, which one is reported may depend on the order
            let coarse = |c: &str| if c == "Ok" { "Ok" } else { "Err" };
            if coarse(class_of(&r2)) != coarse(class) {
                return o.with_verdict(Verdict::Fail {
                    sig: "C03/order-changes-outcome".into(),
                    msg: format!("creating the same nodes in another order changes the encode outcome from {class} to {}\n--- trace ---\n{trace}", class_of(&r2)),
                });
            }
            if let (Ok(bytes2), Some(base)) = (&r2, &base_iface) {
                let w2 = match wire::decode(bytes2) {
                    Ok(w) => w,
                    Err(e) => return o.with_verdict(Verdict::Fail { sig: "C03/output-does-not-decode".into(), msg: e }),
                };
                let i2 = interface_of(&w2);
                if &i2 != base {
                    return o.with_verdict(Verdict::Fail {
                        sig: format!("C03/order-changes-interface{}", if exp.explicit_renamed { ":explicit-renamed-interface" } else if exp.explicit_on_track { ":explicit-on-track" } else if exp.explicit_shares_interface { ":explicit-shares-interface" } else if exp.dep_on_track { ":used-interface-on-track" } else if exp.groups.values().any(|(i, e, d)| i.iter().chain(e.iter()).chain(d.iter()).collect::<BTreeSet<_>>().len() >= 2) { ":versions-on-one-track" } else { "" }),
                        msg: format!("creating the same nodes in another order changes the component's interface.\n first: {base:?}\n permuted: {i2:?}\n--- trace ---\n{trace}"),
                    });
                }
            }
            o = o.label("permutation-compared");
        }
    }
    o.nontrivial(nontrivial).comparisons(comparisons)
}

pub fn run(tier: Tier, seed: u64, replay: Option<&std::path::Path>) -> i32 {
    let mut run = Run::new(
        "C03",
        tier,
        seed,
        "exploration",
        "compositions from generated libraries (several versions of one API package on the same and on different semver tracks, `use`-dependent interfaces, shaped packages with versioned names) x graph histories leaving chosen arguments unsatisfied, with explicit imports on the same name / same track / unrelated names. Expected import set computed from the history and the generating WIT model: names grouped by reference semver track, one import per group named for the highest version (T7: a differently named explicit import may stay separate), instance imports offering exactly the union of the sharers' export names, plus the `use`-closure interfaces; no other import; exports exactly the designated names with the designated kinds; agreement with CompositionGraph::imports(); ImplicitImportConflict exactly when an explicit import has the name of an unsatisfied argument. Metamorphic: the composition is rebuilt in 5 other node-creation orders (aliases after their sources; argument order reversed on odd permutations) and must give the same outcome class and the same decoded interface. Non-trivial = at least one group shared by >= 2 arguments/used interfaces or by an argument and an explicit import. Distinct by JSON hash.",
    );
    run.assume("T7: an explicit import on the track of an unsatisfied argument may be merged into the shared import or stay separate");
    run.assume("each sharer's requirement is read from wac's decoded package world (decoder fidelity is C08's obligation); dependency interfaces come from the generating WIT model");
    if let Some(p) = replay {
        run.replay_case::<GCase, _>(p, check);
        return run.finish();
    }
    let n = tier.pick(12_000, 200_000);
    run.explore(1, 16, n / 16, || gcase_strategy(40), check);
    for l in ["interface-checked", "shared-import-group", "versions-on-one-track", "permutation-compared", "explicit-import-on-track"] {
        run.floor(l, 20);
    }
    run.finish()
}
