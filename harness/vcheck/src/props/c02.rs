//! C02 — the encoded wiring is exactly the composition graph (translation validation).
//!
//! The output bytes are decoded by O-wire (payload-level reader, no validator, no wac code) and
//! compared with the graph as read through public queries.  Items on both sides are given a
//! canonical *signature* (package, node name, and recursively the signatures of what each argument /
//! alias is bound to); instantiations are compared as multisets of signatures (so duplication vs
//! sharing and swapped equal-typed arguments are visible), exports and names item by item.

use crate::engine::*;
use crate::gen::ghist::*;
use crate::oracle::wire::{self, Kind, Origin, Wire};
use crate::props::c01::{shape, validate};
use serde_json::json;
use std::collections::{BTreeMap, HashMap};
use wac_graph::{CompositionGraph, EncodeOptions, NodeId, NodeKind};
use wac_types::ItemKind;

/// O-semver track key of an extern name (own implementation; see props/c15.rs for the relation).
pub fn track_key(name: &str) -> String {
    if let Some((base, v)) = name.split_once('@') {
        if let Ok(ver) = semver::Version::parse(v) {
            if ver.pre.is_empty() {
                if ver.major > 0 {
                    return format!("{base}@{}", ver.major);
                }
                if ver.minor > 0 {
                    return format!("{base}@0.{}", ver.minor);
                }
            }
        }
    }
    name.to_string()
}

fn kind_of(k: ItemKind) -> Kind {
    match k {
        ItemKind::Type(_) => Kind::Type,
        ItemKind::Func(_) => Kind::Func,
        ItemKind::Instance(_) => Kind::Instance,
        ItemKind::Component(_) => Kind::Component,
        ItemKind::Module(_) => Kind::Module,
        ItemKind::Value(_) => Kind::Value,
    }
}

struct GraphSigs<'a> {
    b: &'a Built,
    memo: HashMap<NodeId, String>,
    /// embed mode: packages are identified by their bytes (two names may carry identical bytes)
    by_bytes: bool,
}

impl<'a> GraphSigs<'a> {
    fn pkg_ident(&self, n: NodeId) -> String {
        let p = &self.b.graph[self.b.graph[n].package().unwrap()];
        if self.by_bytes {
            return sha_hex(p.bytes())[..12].to_string();
        }
        match p.version() {
            Some(v) => format!("{}@{v}", p.name()),
            None => p.name().to_string(),
        }
    }
    fn sig(&mut self, n: NodeId, depth: usize) -> String {
        if let Some(s) = self.memo.get(&n) {
            return s.clone();
        }
        if depth > 64 {
            return "<deep>".into();
        }
        let g: &CompositionGraph = &self.b.graph;
        let name = g[n].name().map(|s| format!("#{s}")).unwrap_or_default();
        let s = match g[n].kind() {
            // imports are identified by their semver track: an explicit import may be merged with the
            // implicit imports on its track (T7), so its node name is not part of the identity
            NodeKind::Import(name_) => format!("import({})", track_key(name_)),
            NodeKind::Definition => format!("def({}){name}", g[n].export_name().unwrap_or("")),
            NodeKind::Alias => {
                let (src, export) = g.get_alias_source(n).map(|(s, e)| (s, e.to_string())).unwrap();
                format!("alias({},{export:?}){name}", self.sig(src, depth + 1))
            }
            NodeKind::Instantiation(_) => {
                let pkg = &g[g[n].package().unwrap()];
                let mut args: BTreeMap<String, String> = BTreeMap::new();
                let set: Vec<(String, NodeId)> = g.get_instantiation_arguments(n).map(|(a, s)| (a.to_string(), s)).collect();
                for (a, s) in set {
                    let v = self.sig(s, depth + 1);
                    args.insert(a, v);
                }
                for (iname, _) in g.types()[pkg.ty()].imports.iter() {
                    args.entry(iname.clone()).or_insert_with(|| format!("import({})", track_key(iname)));
                }
                format!("new {}{{{}}}{name}", self.pkg_ident(n), args.iter().map(|(k, v)| format!("{k}={v}")).collect::<Vec<_>>().join(";"))
            }
        };
        self.memo.insert(n, s.clone());
        s
    }
}

struct WireSigs<'a> {
    w: &'a Wire,
    /// component index -> package identity
    comp_ident: BTreeMap<u32, String>,
    memo: HashMap<(Kind, u32), String>,
}

impl<'a> WireSigs<'a> {
    fn name_of(&self, k: Kind, base: u32) -> String {
        // a name-section entry may refer to any index that resolves to `base`
        if let Some(v) = self.w.names.get(&k) {
            for (i, n) in v {
                if self.w.resolve(k, *i).0 == base {
                    return format!("#{n}");
                }
            }
        }
        String::new()
    }
    fn sig(&mut self, k: Kind, i: u32, depth: usize) -> String {
        let (base, origin) = self.w.resolve(k, i);
        if let Some(s) = self.memo.get(&(k, base)) {
            return s.clone();
        }
        if depth > 64 {
            return "<deep>".into();
        }
        let name = self.name_of(k, base);
        let s = match origin.cloned() {
            None => format!("<dangling {k:?} {i}>"),
            Some(Origin::Import { name: n }) => {
                // an implicit import has no node (and therefore no node name) on the graph side
                format!("import({})", track_key(&n))
            }
            Some(Origin::Alias { instance, name: n }) => format!("alias({},{n:?}){name}", self.sig(Kind::Instance, instance, depth + 1)),
            Some(Origin::Instantiate { component, args }) => {
                let ident = self.comp_ident.get(&self.w.resolve(Kind::Component, component).0).cloned().unwrap_or_else(|| format!("<component {component}>"));
                let mut m = BTreeMap::new();
                for (a, kind, idx) in args {
                    let v = self.sig(kind, idx, depth + 1);
                    m.insert(a, v);
                }
                format!("new {ident}{{{}}}{name}", m.iter().map(|(k, v)| format!("{k}={v}")).collect::<Vec<_>>().join(";"))
            }
            Some(Origin::TypeDef { summary }) => format!("typedef({summary})"),
            Some(o) => format!("<{o:?}>"),
        };
        self.memo.insert((k, base), s.clone());
        s
    }
}

fn parse_unlocked_dep(name: &str) -> Option<String> {
    let inner = name.strip_prefix("unlocked-dep=<")?.strip_suffix('>')?;
    match inner.split_once("@{>=") {
        Some((n, v)) => Some(format!("{n}@{}", v.strip_suffix('}')?)),
        None => Some(inner.to_string()),
    }
}

pub fn compare(b: &Built, bytes: &[u8], define_components: bool) -> Result<u64, (String, String)> {
    let w = wire::decode(bytes).map_err(|e| ("C02/output-does-not-decode".to_string(), e))?;
    let g = &b.graph;
    let mut checks = 0u64;
    let inst_nodes: Vec<NodeId> = g.node_ids().filter(|n| matches!(g[*n].kind(), NodeKind::Instantiation(_))).collect();

    // ---- component identities
    let mut comp_ident = BTreeMap::new();
    let mut instantiated: BTreeMap<String, &PkgInfo> = BTreeMap::new();
    for n in &inst_nodes {
        let pid = g[*n].package().unwrap();
        let p = b.pkgs.iter().find(|p| p.id == pid).unwrap();
        let ident = match &p.version {
            Some(v) => format!("{}@{v}", p.name),
            None => p.name.clone(),
        };
        instantiated.insert(ident, p);
    }
    if define_components {
        let embedded = w.embedded_components();
        let mut want: Vec<String> = instantiated.values().map(|p| sha_hex(&p.bytes)[..12].to_string()).collect();
        let mut got: Vec<String> = vec![];
        for (idx, bytes) in &embedded {
            checks += 1;
            let h = sha_hex(bytes)[..12].to_string();
            comp_ident.insert(*idx, h.clone());
            got.push(h);
        }
        want.sort();
        got.sort();
        checks += 1;
        if want != got {
            let sig = if got.len() > want.len() { "C02/package-embedded-twice-or-uninstantiated-embedded" } else { "C02/instantiated-package-not-embedded" };
            return Err((sig.into(), format!("embedded components (by content hash) {got:?} differ from the instantiated packages' bytes {want:?} (one embedded copy per instantiated package, byte-identical)")));
        }
        if w.imports.iter().any(|i| i.name.starts_with("unlocked-dep=")) {
            return Err(("C02/dependency-imported-in-embed-mode".into(), "an unlocked-dep import is present although dependencies are embedded".into()));
        }
    } else {
        checks += 1;
        if !w.embedded_components().is_empty() {
            return Err(("C02/dependency-embedded-in-import-mode".into(), "a component is embedded although dependencies are imported".into()));
        }
        if let Some(v) = w.spaces.get(&Kind::Component) {
            for (idx, o) in v.iter().enumerate() {
                if let Origin::Import { name } = o {
                    if let Some(ident) = parse_unlocked_dep(name) {
                        checks += 1;
                        if !instantiated.contains_key(&ident) {
                            return Err(("C02/unlocked-dep-for-uninstantiated-package".into(), format!("component import `{name}` does not correspond to an instantiated package")));
                        }
                        if comp_ident.values().any(|v| v == &ident) {
                            return Err(("C02/package-imported-twice".into(), format!("package {ident} is imported more than once")));
                        }
                        comp_ident.insert(idx as u32, ident);
                    }
                }
            }
        }
        if comp_ident.len() != instantiated.len() {
            let missing: Vec<_> = instantiated.keys().filter(|k| !comp_ident.values().any(|v| v == *k)).collect();
            return Err(("C02/instantiated-package-not-imported".into(), format!("no `unlocked-dep=<...>` import for {missing:?}; imports are {:?}", w.imports.iter().map(|i| i.name.clone()).collect::<Vec<_>>())));
        }
    }

    // ---- instantiations as multisets of signatures
    let mut gs = GraphSigs { b, memo: HashMap::new(), by_bytes: define_components };
    let mut ws = WireSigs { w: &w, comp_ident, memo: HashMap::new() };
    let mut want: Vec<String> = inst_nodes.iter().map(|n| gs.sig(*n, 0)).collect();
    let mut got: Vec<String> = w.instantiations().iter().map(|(i, _, _)| ws.sig(Kind::Instance, *i, 0)).collect();
    want.sort();
    got.sort();
    checks += inst_nodes.iter().map(|n| 1 + g.types()[g[g[*n].package().unwrap()].ty()].imports.len() as u64).sum::<u64>();
    if want != got {
        let only_graph: Vec<_> = want.iter().filter(|s| !got.contains(s)).cloned().collect();
        let only_wire: Vec<_> = got.iter().filter(|s| !want.contains(s)).cloned().collect();
        let sig = if want.len() != got.len() { "C02/instantiation-count" } else { "C02/instantiation-wiring" };
        return Err((sig.into(), format!("instantiations differ.\n only in graph: {only_graph:#?}\n only in output: {only_wire:#?}")));
    }

    // ---- exports
    for (name, node) in &b.exports {
        if g.get_export(name) != Some(*node) {
            continue;
        }
        checks += 1;
        let kind = kind_of(g[*node].item_kind());
        match w.exports.iter().find(|(n, _, _)| n == name) {
            None => return Err(("C02/export-missing".into(), format!("export `{name}` of node {node} is not in the output; output exports {:?}", w.exports.iter().map(|e| e.0.clone()).collect::<Vec<_>>()))),
            Some((_, k, idx)) => {
                if *k != kind {
                    return Err(("C02/export-kind".into(), format!("export `{name}`: kind {k:?}, graph node kind {kind:?}")));
                }
                let a = ws.sig(*k, *idx, 0);
                let e = gs.sig(*node, 0);
                if a != e {
                    return Err(("C02/export-binding".into(), format!("export `{name}` is bound to\n   {a}\n but the graph designates\n   {e}")));
                }
            }
        }
    }
    checks += 1;
    let live: Vec<&String> = b.exports.iter().filter(|(n, node)| g.get_export(n) == Some(*node)).map(|(n, _)| n).collect();
    for (n, _, _) in &w.exports {
        if !live.contains(&n) {
            return Err(("C02/unexpected-export".into(), format!("output exports `{n}` which the composition does not designate")));
        }
    }

    // ---- name section: (kind, name, signature) multisets
    let mut want_names: Vec<(Kind, String, String)> = vec![];
    for n in g.node_ids() {
        if let Some(name) = g[n].name() {
            // names of instantiation/alias/import nodes are part of their signature already
            want_names.push((kind_of(g[n].item_kind()), name.to_string(), gs.sig(n, 0)));
        }
    }
    let mut got_names: Vec<(Kind, String, String)> = vec![];
    for (k, v) in &w.names {
        for (i, n) in v {
            got_names.push((*k, n.clone(), ws.sig(*k, *i, 0)));
        }
    }
    want_names.sort();
    got_names.sort();
    checks += want_names.len() as u64;
    if want_names != got_names {
        return Err(("C02/name-section".into(), format!("name section differs.\n graph: {want_names:#?}\n output: {got_names:#?}")));
    }
    Ok(checks)
}

fn check(case: &GCase) -> Outcome {
    let mut o = check_inner(case);
    // exotic hand-shaped packages (bare top-level type / value / resource imports) are appended to failure
    // signatures so that a recorded finding only covers compositions that register them
    if let Verdict::Fail { sig, msg } = &o.verdict {
        let exotic: Vec<&str> = SHAPED.iter().enumerate().filter(|(i, (n, _))| case.shaped & (1 << i) != 0 && ["shaped:types", "shaped:values", "shaped:resource"].contains(n)).map(|(_, (n, _))| n.trim_start_matches("shaped:")).collect();
        if !exotic.is_empty() {
            o.verdict = Verdict::Fail { sig: format!("{sig}:SH:{}", exotic.join(",")), msg: msg.clone() };
        }
    }
    o
}

fn check_inner(case: &GCase) -> Outcome {
    let b = match execute(case) {
        Ok(b) => b,
        Err(BuildError::Generator(e)) => return Outcome::gen_invalid(e),
        Err(BuildError::Foreign(e)) => return Outcome::foreign(e),
        Err(BuildError::OpPanic(e)) => return Outcome::foreign(format!("graph operation panicked (C06's obligation): {e}")),
    };
    let s = shape(&b.graph);
    let distinguishing = b.labels.contains("several-instantiations-of-one-package") || b.labels.contains("diamond-reuse") || b.labels.contains("exported-under-several-names") || b.labels.contains("alias-of-alias");
    let mut o = Outcome::pass()
        .nontrivial(distinguishing && s.instantiations >= 2)
        .labels(b.labels.iter().map(|s| s.to_string()))
        .rendered(json!({"trace": b.trace, "instantiations": s.instantiations, "argument_edges": s.argument_edges}));
    let mut comparisons = 0;
    // the graph's own view must contain exactly the arguments the history designated
    let mut listed = std::collections::BTreeMap::new();
    for n in b.graph.node_ids() {
        for (a, s) in b.graph.get_instantiation_arguments(n) {
            listed.insert((n, a.to_string()), s);
        }
    }
    comparisons += listed.len() as u64 + 1;
    if listed != b.designated {
        let lost: Vec<_> = b.designated.iter().filter(|(k, v)| listed.get(*k) != Some(*v)).map(|((i, a), s)| format!("n{i}.{a:?} := n{s}")).collect();
        let extra: Vec<_> = listed.iter().filter(|(k, v)| b.designated.get(*k) != Some(*v)).map(|((i, a), s)| format!("n{i}.{a:?} := n{s}")).collect();
        return o.with_verdict(Verdict::Fail {
            sig: "C02/designated-argument-not-in-graph".into(),
            msg: format!("arguments accepted by set_instantiation_argument and the graph's argument listing differ.\n accepted but not listed: {lost:?}\n listed but never designated: {extra:?}\n--- trace ---\n{}", b.trace.join("\n")),
        });
    }
    for define_components in [true, false] {
        let opts = EncodeOptions { define_components, validate: false, processor: None };
        let bytes = match guarded(|| b.graph.encode(opts)) {
            Ok(Ok(bytes)) => bytes,
            Ok(Err(e)) => return o.with_verdict(Verdict::Foreign(format!("composition does not encode ({e}); C01/C03 decide whether that is justified"))),
            Err(p) => return o.with_verdict(Verdict::Foreign(format!("encode panicked (C01's obligation): {p}"))),
        };
        if validate(&bytes).is_err() {
            return o.with_verdict(Verdict::Foreign("output does not validate (C01's obligation)".into()));
        }
        match compare(&b, &bytes, define_components) {
            Ok(n) => comparisons += n,
            Err((sig, msg)) => {
                return o.with_verdict(Verdict::Fail { sig, msg: format!("[{}] {msg}\n--- trace ---\n{}", if define_components { "embed" } else { "import-mode" }, b.trace.join("\n")) });
            }
        }
        o = o.label(if define_components { "compared-embed" } else { "compared-import-mode" });
    }
    o.comparisons(comparisons)
}

pub fn run(tier: Tier, seed: u64, replay: Option<&std::path::Path>) -> i32 {
    let mut run = Run::new(
        "C02",
        tier,
        seed,
        "translation_validation",
        "encodable compositions produced by generated libraries x graph histories (as C01), in both dependency modes. The output is decoded by an independent payload-level reader and compared with the graph read through public queries: embedded components byte-identical to registered packages, one per instantiated package (or one unlocked-dep import each); instantiations compared as multisets of canonical signatures (package, node name, per-argument binding followed through alias/export chains to its origin; implicit arguments must bind to an import on the argument's semver track); every export bound to the designated item with the right kind, no extra exports; name-section entries map to the named nodes. Non-trivial = the composition has a distinguishing feature (several instantiations of one package, diamond reuse, alias of alias, node exported under several names) and >= 2 instantiations. Distinct by JSON hash.",
    );
    run.assume("unnamed nodes with identical recursive signatures are interchangeable (isomorphism up to indistinguishable nodes)");
    run.assume("which import an implicit argument binds to is compared up to its semver track; exact import naming is C03's obligation");
    if let Some(p) = replay {
        run.replay_case::<GCase, _>(p, check);
        return run.finish();
    }
    let n = tier.pick(12_000, 200_000);
    run.explore(1, 16, n / 16, || gcase_strategy(40), check);
    for l in ["compared-embed", "compared-import-mode", "several-instantiations-of-one-package", "diamond-reuse", "alias-of-alias", "exported-under-several-names", "named-node"] {
        run.floor(l, 20);
    }
    run.finish()
}
