//! C01 — every encoded composition is a valid component; no late validation failures.

use crate::engine::*;
use crate::gen::ghist::*;
use serde_json::json;
use std::collections::{BTreeMap, BTreeSet};
use wac_graph::{CompositionGraph, EncodeError, EncodeOptions, NodeId, NodeKind};

/// Validator message with names, numbers and offsets blanked (for stable signatures).
pub fn msg_class(m: &str) -> String {
    let full = m;
    let m = m.lines().next().unwrap_or(m);
    let m = m.split(" (at offset").next().unwrap_or(m);
    let mut out = String::new();
    let mut tick = false;
    for c in m.chars() {
        if c == '`' {
            tick = !tick;
            continue;
        }
        if tick || c.is_ascii_digit() {
            continue;
        }
        out.push(if c == ' ' { '-' } else { c });
    }
    let mut out: String = out.chars().take(70).collect();
    if m_full_contains_resource_identity(full) {
        out.push_str("/resource-types-are-not-the-same");
    }
    out
}

fn m_full_contains_resource_identity(m: &str) -> bool {
    m.contains("resource types are not the same")
}

pub fn validate(bytes: &[u8]) -> Result<(), String> {
    wasmparser::Validator::new_with_features(wasmparser::WasmFeatures::all()).validate_all(bytes).map(|_| ()).map_err(|e| e.to_string())
}

/// Is there a cycle among argument and alias edges (read through public queries only)?
pub fn has_cycle(g: &CompositionGraph) -> bool {
    let nodes: Vec<NodeId> = g.node_ids().collect();
    let mut edges: Vec<(NodeId, NodeId)> = vec![];
    for n in &nodes {
        for (_, src) in g.get_instantiation_arguments(*n) {
            edges.push((src, *n));
        }
        if let Some((src, _)) = g.get_alias_source(*n) {
            edges.push((src, *n));
        }
    }
    let mut indeg: BTreeMap<NodeId, usize> = nodes.iter().map(|n| (*n, 0)).collect();
    for (_, t) in &edges {
        *indeg.get_mut(t).unwrap() += 1;
    }
    let mut q: Vec<NodeId> = indeg.iter().filter(|(_, d)| **d == 0).map(|(n, _)| *n).collect();
    let mut seen = 0;
    while let Some(x) = q.pop() {
        seen += 1;
        for (s, t) in &edges {
            if *s == x {
                let d = indeg.get_mut(t).unwrap();
                *d -= 1;
                if *d == 0 {
                    q.push(*t);
                }
            }
        }
    }
    seen != nodes.len()
}

pub struct Shape {
    pub instantiations: usize,
    pub argument_edges: usize,
    pub implicit: usize,
    pub explicit: usize,
}

pub fn shape(g: &CompositionGraph) -> Shape {
    let mut s = Shape { instantiations: 0, argument_edges: 0, implicit: 0, explicit: 0 };
    for n in g.node_ids() {
        if matches!(g[n].kind(), NodeKind::Instantiation(_)) {
            s.instantiations += 1;
            s.argument_edges += g.get_instantiation_arguments(n).count();
        }
    }
    for (_, _, id) in g.imports() {
        if id.is_some() {
            s.explicit += 1
        } else {
            s.implicit += 1
        }
    }
    s
}

pub fn check_graph(b: &Built) -> Result<(u64, Vec<String>), (String, String)> {
    let g = &b.graph;
    let mut comparisons = 0;
    let mut labels = vec![];
    let mut classes = BTreeSet::new();
    for define_components in [true, false] {
        for validate_opt in [true, false] {
            let opts = EncodeOptions { define_components, validate: validate_opt, processor: None };
            let tag = format!("{}{}", if define_components { "embed" } else { "import-mode" }, if validate_opt { "" } else { ",validate-off" });
            let r = guarded(|| g.encode(opts)).map_err(|p| (format!("C01/panic:encode:{}", panic_sig(&p)), format!("encode({tag}) panicked: {p}")))?;
            comparisons += 1;
            match r {
                Ok(bytes) => {
                    classes.insert("Ok");
                    if let Err(e) = validate(&bytes) {
                        return Err((format!("C01/invalid-output:{}:{}", if define_components { "embed" } else { "import-mode" }, msg_class(&e)), format!("encode({tag}) returned Ok but the reference validator rejects the bytes: {e}")));
                    }
                    labels.push(format!("valid-{}", if define_components { "embed" } else { "import-mode" }));
                }
                Err(EncodeError::ValidationFailure { source }) => {
                    return Err((format!("C01/late-validation-failure:{}:{}", if define_components { "embed" } else { "import-mode" }, msg_class(&source.to_string())), format!("encode({tag}) failed with a post-hoc validation error although every operation was accepted: {source}")));
                }
                Err(EncodeError::GraphContainsCycle { .. }) => {
                    classes.insert("Cycle");
                    if !has_cycle(g) {
                        return Err(("C01/spurious-cycle-error".into(), format!("encode({tag}) reports a cycle but argument/alias edges are acyclic")));
                    }
                    labels.push("err-cycle".into());
                }
                Err(EncodeError::ImplicitImportConflict { name, .. }) => {
                    classes.insert("ImplicitImportConflict");
                    let explicit = g.imports().any(|(n, _, id)| id.is_some() && n == name);
                    let implicit = g.imports().any(|(n, _, id)| id.is_none() && n == name);
                    if !(explicit && implicit) {
                        return Err(("C01/spurious-import-conflict".into(), format!("encode({tag}) reports an implicit import conflict on `{name}` but imports() shows explicit={explicit} implicit={implicit}")));
                    }
                    labels.push("err-implicit-import-conflict".into());
                }
                Err(EncodeError::ImportTypeMergeConflict { .. }) => {
                    classes.insert("MergeConflict");
                    labels.push("err-merge-conflict".into());
                }
            }
        }
    }
    if classes.len() > 1 {
        return Err(("C01/options-change-verdict".into(), format!("the four option combinations disagree on the outcome class: {classes:?}")));
    }
    Ok((comparisons, labels))
}

/// Coarse shape of the failing composition, appended to failure signatures so that a recorded
/// known finding only covers compositions of the same shape:
///  MV  an instantiated package mentions interfaces of two different versions of one API package
///  XU  an instantiated package exports an interface that `use`s another interface
///  SH:<names>  hand-shaped packages that are instantiated
pub fn shape_flags(b: &Built) -> String {
    use crate::gen::wit::{Item, WorldItem};
    let mut flags = vec![];
    let instantiated: BTreeSet<String> = b.graph.node_ids().filter(|n| matches!(b.graph[*n].kind(), NodeKind::Instantiation(_))).map(|n| b.graph[b.graph[n].package().unwrap()].name().to_string()).collect();
    let mut mv = false;
    let mut xu = false;
    for c in &b.library.comps {
        if !instantiated.contains(&c.name) {
            continue;
        }
        let mut versions = BTreeSet::new();
        for it in &c.items {
            if let WorldItem::ImportIface(p, i) | WorldItem::ExportIface(p, i) = it {
                versions.insert(*p);
                if matches!(it, WorldItem::ExportIface(..)) && b.library.apis[*p].ifaces[*i].items.iter().any(|x| matches!(x, Item::Use { .. })) {
                    xu = true;
                }
            }
        }
        if versions.len() > 1 {
            mv = true;
        }
    }
    if mv {
        flags.push("MV".to_string());
    }
    if xu {
        flags.push("XU".to_string());
    }
    // resource identity across interfaces / exported resource methods
    let mut ru = false;
    for c in &b.library.comps {
        if !instantiated.contains(&c.name) {
            continue;
        }
        for it in &c.items {
            if let WorldItem::ImportIface(p, i) | WorldItem::ExportIface(p, i) = it {
                let api = &b.library.apis[*p];
                for x in &api.ifaces[*i].items {
                    if let Item::Use { from, names } = x {
                        let src = &b.library.apis[from.0].ifaces[from.1];
                        if names.iter().any(|(n, _)| src.type_names().iter().any(|(tn, is_res)| tn == n && *is_res)) {
                            ru = true;
                        }
                    }
                }
            }
        }
    }
    if ru {
        flags.push("RU".to_string());
    }
    // an instantiated component's interface environment has one interface twice: imported and exported (on
    // one semver track), or imported implicitly as the dependency of an import while also exported
    let mut ie = false;
    for c in &b.library.comps {
        if !instantiated.contains(&c.name) {
            continue;
        }
        let mut imp: BTreeSet<String> = BTreeSet::new();
        let mut exp: BTreeSet<String> = BTreeSet::new();
        for it in &c.items {
            match it {
                WorldItem::ImportIface(p, i) => {
                    imp.insert(crate::props::c02::track_key(&b.library.apis[*p].iface_path(*i)));
                    for x in &b.library.apis[*p].ifaces[*i].items {
                        if let Item::Use { from, .. } = x {
                            imp.insert(crate::props::c02::track_key(&b.library.apis[from.0].iface_path(from.1)));
                        }
                    }
                }
                WorldItem::ExportIface(p, i) => {
                    exp.insert(crate::props::c02::track_key(&b.library.apis[*p].iface_path(*i)));
                }
                _ => {}
            }
        }
        if imp.intersection(&exp).next().is_some() {
            ie = true;
        }
    }
    if ie {
        flags.push("IE".to_string());
    }
    // an explicit import node named with an interface path other than the id of the interface it imports
    if b.graph.node_ids().any(|n| match (b.graph[n].kind(), b.graph[n].item_kind()) {
        (NodeKind::Import(name), wac_types::ItemKind::Instance(id)) => name.contains('/') && b.graph.types()[id].id.as_deref().map(|i| i != name.as_str()).unwrap_or(false),
        _ => false,
    }) {
        flags.push("EXN".to_string());
    }
    // an exported node that is a function taken out of an interface instance (alias of an alias)
    if b.graph.node_ids().any(|n| {
        b.graph[n].export_name().is_some()
            && matches!(b.graph[n].item_kind(), wac_types::ItemKind::Func(_))
            && b.graph.get_alias_source(n).map(|(src, _)| matches!(b.graph[src].kind(), NodeKind::Alias) || matches!(b.graph[src].kind(), NodeKind::Import(_))).unwrap_or(false)
    }) {
        flags.push("FNX".to_string());
    }
    let shaped: Vec<String> = b.pkgs.iter().filter(|p| p.shaped && ["shaped:types", "shaped:values", "shaped:resource"].contains(&p.name.as_str())).map(|p| p.name.trim_start_matches("shaped:").to_string()).collect();
    if !shaped.is_empty() {
        flags.push(format!("SH:{}", shaped.join(",")));
    }
    if flags.is_empty() {
        "plain".to_string()
    } else {
        flags.join("+")
    }
}

fn check(case: &GCase) -> Outcome {
    let b = match execute(case) {
        Ok(b) => b,
        Err(BuildError::Generator(e)) => return Outcome::gen_invalid(e),
        Err(BuildError::Foreign(e)) => return Outcome::foreign(e),
        Err(BuildError::OpPanic(e)) => return Outcome::foreign(format!("graph operation panicked (C06's obligation): {e}")),
    };
    let s = shape(&b.graph);
    let feats = crate::gen::wit::lib_features(&b.library);
    let nontrivial = s.instantiations >= 2 && s.argument_edges >= 1 && s.implicit >= 1;
    let mut o = Outcome::pass()
        .nontrivial(nontrivial)
        .labels(b.labels.iter().map(|s| s.to_string()))
        .labels(feats.iter().map(|s| format!("lib-{s}")))
        .rendered(json!({"packages": b.pkgs.iter().map(|p| p.name.clone()).collect::<Vec<_>>(), "trace": b.trace, "instantiations": s.instantiations, "argument_edges": s.argument_edges, "implicit_imports": s.implicit, "explicit_imports": s.explicit}));
    if b.pkgs.iter().any(|p| p.shaped) {
        o = o.label("wat-shaped");
    }
    match check_graph(&b) {
        Ok((n, labels)) => o.comparisons(n).labels(labels),
        Err((sig, msg)) => {
            let flags = shape_flags(&b);
            o.with_verdict(Verdict::Fail { sig: format!("{sig}:{flags}"), msg: format!("{msg}\n[shape flags {flags}]\n--- trace ---\n{}", b.trace.join("\n")) })
        }
    }
}

pub fn run(tier: Tier, seed: u64, replay: Option<&std::path::Path>) -> i32 {
    let mut run = Run::new(
        "C01",
        tier,
        seed,
        "exploration",
        "generated libraries (WIT-derived components over 1-4 interfaces with records/variants/enums/flags/aliases/resources/cross-interface use, 1-3 versions of the API package, inline interfaces, bare funcs; plus up to 10 hand-shaped WAT packages) x operation histories up to 40 ops on the public graph API (instantiate, alias, auto-wire matching exports to imports, explicit imports on the same name / same track / unrelated name, exports under several names, names, removal) x the 4 encode option combinations. Oracle: Ok => bytes accepted by wasmparser's validator (also with validate:false); Err must be a documented cycle/import-conflict/merge-conflict error justified by the graph's own listing, never ValidationFailure, never a panic; all four option combinations agree on the outcome class. Non-trivial = >= 2 instantiations with >= 1 argument edge and >= 1 implicit import. Distinct by JSON hash.",
    );
    run.assume("validity of embedded dependency bytes is the dependency's; libraries only contain components the reference toolchain produced and validated");
    if let Some(p) = replay {
        run.replay_case::<GCase, _>(p, check);
        return run.finish();
    }
    let n = tier.pick(12_000, 200_000);
    run.explore(1, 16, n / 16, || gcase_strategy(40), check);
    for l in ["argument-edge", "diamond-reuse", "several-instantiations-of-one-package", "explicit-import", "lib-resources", "lib-cross-interface-use", "lib-several-api-versions", "wat-shaped", "valid-embed", "valid-import-mode"] {
        run.floor(l, 20);
    }
    run.finish()
}
