//! C07 — argument type checking agrees with the component-model subtype relation.
//!
//! A batch of item kinds is emitted as ONE component that imports each kind as `t0..tn`
//! (values are re-exported, as the validator requires).  The reference verdict for every ordered
//! pair comes from `wasmparser`'s own `ComponentEntityType::is_subtype_of` on the validated
//! component; wac's verdicts come from `SubtypeChecker` on two independent decodes of the same
//! bytes and from `set_instantiation_argument` on a graph whose memo persists across all pairs.

use crate::engine::*;
use proptest::prelude::*;
use serde::{Deserialize, Serialize};
use serde_json::json;
use wac_graph::{CompositionGraph, InstantiationArgumentError};
use wac_types::{ItemKind, Package, SubtypeChecker, Types};

#[derive(Clone, Debug, Serialize, Deserialize, PartialEq)]
pub enum VT {
    Prim(u8),
    List(Box<VT>),
    Option(Box<VT>),
    Result(Option<Box<VT>>, Option<Box<VT>>),
    Tuple(Vec<VT>),
    /// a named type imported at the top of the batch component (index into `Batch::defs`)
    Named(u8),
}

const PRIMS: &[&str] = &["u8", "s8", "u16", "s16", "u32", "s32", "u64", "s64", "f32", "f64", "char", "bool", "string"];

impl VT {
    fn wat(&self, ndefs: usize) -> String {
        match self {
            VT::Prim(p) => PRIMS[*p as usize % PRIMS.len()].to_string(),
            VT::List(t) => format!("(list {})", t.wat(ndefs)),
            VT::Option(t) => format!("(option {})", t.wat(ndefs)),
            VT::Result(None, None) => "(result)".into(),
            VT::Result(Some(o), None) => format!("(result {})", o.wat(ndefs)),
            VT::Result(None, Some(e)) => format!("(result (error {}))", e.wat(ndefs)),
            VT::Result(Some(o), Some(e)) => format!("(result {} (error {}))", o.wat(ndefs), e.wat(ndefs)),
            VT::Tuple(ts) => format!("(tuple {})", ts.iter().map(|t| t.wat(ndefs)).collect::<Vec<_>>().join(" ")),
            VT::Named(i) => {
                if ndefs == 0 {
                    "u32".into()
                } else {
                    format!("$n{}", *i as usize % ndefs)
                }
            }
        }
    }
}

#[derive(Clone, Debug, Serialize, Deserialize, PartialEq)]
pub enum Def {
    Record(Vec<(String, VT)>),
    Variant(Vec<(String, Option<VT>)>),
    Enum(Vec<String>),
    Flags(Vec<String>),
}

impl Def {
    /// named defs may only mention anonymous value types (keeps the batch component simple)
    fn wat(&self) -> String {
        match self {
            Def::Record(fs) => format!("(record {})", fs.iter().map(|(n, t)| format!("(field \"{n}\" {})", t.wat(0))).collect::<Vec<_>>().join(" ")),
            Def::Variant(cs) => format!("(variant {})", cs.iter().map(|(n, t)| match t { Some(t) => format!("(case \"{n}\" {})", t.wat(0)), None => format!("(case \"{n}\")") }).collect::<Vec<_>>().join(" ")),
            Def::Enum(cs) => format!("(enum {})", cs.iter().map(|c| format!("\"{c}\"")).collect::<Vec<_>>().join(" ")),
            Def::Flags(cs) => format!("(flags {})", cs.iter().map(|c| format!("\"{c}\"")).collect::<Vec<_>>().join(" ")),
        }
    }
}

#[derive(Clone, Debug, Serialize, Deserialize, PartialEq)]
pub struct FuncK {
    pub params: Vec<(String, VT)>,
    pub result: Option<VT>,
    pub is_async: bool,
}

impl FuncK {
    fn wat(&self, ndefs: usize) -> String {
        format!(
            "(func{} {}{})",
            if self.is_async { " async" } else { "" },
            self.params.iter().map(|(n, t)| format!("(param \"{n}\" {})", t.wat(ndefs))).collect::<Vec<_>>().join(" "),
            self.result.as_ref().map(|t| format!(" (result {})", t.wat(ndefs))).unwrap_or_default()
        )
    }
}

#[derive(Clone, Debug, Serialize, Deserialize, PartialEq)]
pub enum CoreExt {
    Func(Vec<u8>, Vec<u8>),
    Memory { min: u32, max: Option<u32>, shared: bool, m64: bool },
    Table { min: u32, max: Option<u32>, externref: bool },
    Global { ty: u8, mutable: bool },
    Tag(Vec<u8>),
}

const CORE_TYS: &[&str] = &["i32", "i64", "f32", "f64"];

impl CoreExt {
    fn wat(&self) -> String {
        let tys = |v: &Vec<u8>| v.iter().map(|t| CORE_TYS[*t as usize % 4]).collect::<Vec<_>>().join(" ");
        match self {
            CoreExt::Func(p, r) => format!("(func{}{})", if p.is_empty() { String::new() } else { format!(" (param {})", tys(p)) }, if r.is_empty() { String::new() } else { format!(" (result {})", tys(r)) }),
            CoreExt::Memory { min, max, shared, m64 } => {
                // shared memories need a maximum
                let max = if *shared { Some(max.unwrap_or(*min + 1).max(*min)) } else { max.map(|m| m.max(*min)) };
                format!("(memory{} {min}{}{})", if *m64 { " i64" } else { "" }, max.map(|m| format!(" {m}")).unwrap_or_default(), if *shared { " shared" } else { "" })
            }
            CoreExt::Table { min, max, externref } => format!("(table {min}{} {})", max.map(|m| format!(" {}", m.max(*min))).unwrap_or_default(), if *externref { "externref" } else { "funcref" }),
            CoreExt::Global { ty, mutable } => {
                let t = CORE_TYS[*ty as usize % 4];
                if *mutable {
                    format!("(global (mut {t}))")
                } else {
                    format!("(global {t})")
                }
            }
            CoreExt::Tag(p) => format!("(tag{})", if p.is_empty() { String::new() } else { format!(" (param {})", tys(p)) }),
        }
    }
}

#[derive(Clone, Debug, Serialize, Deserialize, PartialEq)]
pub enum K {
    Func(FuncK),
    /// exports: funcs and nested instances
    Instance(Vec<(String, K)>),
    Component { imports: Vec<(String, K)>, exports: Vec<(String, K)> },
    Module { imports: Vec<(String, String, CoreExt)>, exports: Vec<(String, CoreExt)> },
    /// `(type (eq $n_i))`: a named defined type
    TypeOf(u8),
    Value(VT),
}

impl K {
    /// the extern descriptor, e.g. `(func ...)`, `(instance ...)`
    fn wat(&self, ndefs: usize, nested: bool) -> String {
        // inside instance/component types the top-level named types are not in scope: use anonymous types only
        let nd = if nested { 0 } else { ndefs };
        match self {
            K::Func(f) => f.wat(nd),
            K::Instance(ex) => format!("(instance {})", ex.iter().map(|(n, k)| format!("(export \"{n}\" {})", k.wat(ndefs, true))).collect::<Vec<_>>().join(" ")),
            K::Component { imports, exports } => format!(
                "(component {} {})",
                imports.iter().map(|(n, k)| format!("(import \"{n}\" {})", k.wat(ndefs, true))).collect::<Vec<_>>().join(" "),
                exports.iter().map(|(n, k)| format!("(export \"{n}\" {})", k.wat(ndefs, true))).collect::<Vec<_>>().join(" ")
            ),
            K::Module { imports, exports } => format!(
                "(core module {} {})",
                imports.iter().map(|(m, n, e)| format!("(import \"{m}\" \"{n}\" {})", e.wat())).collect::<Vec<_>>().join(" "),
                exports.iter().map(|(n, e)| format!("(export \"{n}\" {})", e.wat())).collect::<Vec<_>>().join(" ")
            ),
            K::TypeOf(i) => {
                if ndefs == 0 || nested {
                    "(func)".into()
                } else {
                    format!("(type (eq $n{}))", *i as usize % ndefs)
                }
            }
            K::Value(t) => format!("(value {})", t.wat(0)),
        }
    }
    fn class(&self) -> &'static str {
        match self {
            K::Func(_) => "func",
            K::Instance(_) => "instance",
            K::Component { .. } => "component",
            K::Module { .. } => "module",
            K::TypeOf(_) => "type",
            K::Value(_) => "value",
        }
    }
}

#[derive(Clone, Debug, Serialize, Deserialize)]
pub struct Batch {
    pub defs: Vec<Def>,
    pub kinds: Vec<K>,
}

fn dedup_names<T>(items: &mut Vec<(String, T)>) {
    let mut seen = std::collections::BTreeSet::new();
    items.retain(|(n, _)| seen.insert(n.clone()));
}

fn sanitize(k: &mut K) {
    match k {
        K::Func(f) => dedup_names(&mut f.params),
        K::Instance(ex) => {
            dedup_names(ex);
            ex.iter_mut().for_each(|(_, k)| sanitize(k));
        }
        K::Component { imports, exports } => {
            dedup_names(imports);
            dedup_names(exports);
            // a name may not be both imported and exported with the same string in one type? (it may) keep
            imports.iter_mut().for_each(|(_, k)| sanitize(k));
            exports.iter_mut().for_each(|(_, k)| sanitize(k));
        }
        K::Module { imports, exports } => {
            let mut seen = std::collections::BTreeSet::new();
            imports.retain(|(m, n, _)| seen.insert((m.clone(), n.clone())));
            dedup_names(exports);
        }
        _ => {}
    }
}

impl Batch {
    pub fn wat(&self) -> String {
        let mut s = String::from("(component\n");
        for (i, d) in self.defs.iter().enumerate() {
            s.push_str(&format!("  (type $d{i} {})\n  (import \"n{i}\" (type $n{i} (eq $d{i})))\n", d.wat()));
        }
        let mut values = vec![];
        for (i, k) in self.kinds.iter().enumerate() {
            s.push_str(&format!("  (import \"t{i}\" {})\n", k.wat(self.defs.len(), false)));
            if matches!(k, K::Value(_)) {
                values.push(i);
            }
        }
        for (vi, i) in values.iter().enumerate() {
            s.push_str(&format!("  (export \"v{i}\" (value {vi}))\n"));
        }
        s.push(')');
        s
    }
}

// ---------------------------------------------------------------------------------------------
// mutation neighbourhoods

fn vt_mutations(t: &VT) -> Vec<VT> {
    let mut out = vec![];
    match t {
        VT::Prim(p) => {
            out.push(VT::Prim((*p % 13 + 1) % 13));
            out.push(VT::List(Box::new(t.clone())));
            out.push(VT::Option(Box::new(t.clone())));
        }
        VT::List(i) => {
            out.push(VT::Option(i.clone()));
            out.push((**i).clone());
            for m in vt_mutations(i).into_iter().take(2) {
                out.push(VT::List(Box::new(m)));
            }
        }
        VT::Option(i) => {
            out.push(VT::List(i.clone()));
            for m in vt_mutations(i).into_iter().take(2) {
                out.push(VT::Option(Box::new(m)));
            }
        }
        VT::Result(a, b) => {
            out.push(VT::Result(b.clone(), a.clone()));
            out.push(VT::Result(a.clone(), None));
            out.push(VT::Result(None, b.clone()));
            out.push(VT::Result(a.clone(), Some(Box::new(VT::Prim(12)))));
            out.push(VT::Result(Some(Box::new(VT::Prim(0))), b.clone()));
        }
        VT::Tuple(ts) => {
            let mut more = ts.clone();
            more.push(VT::Prim(0));
            out.push(VT::Tuple(more));
            if ts.len() > 1 {
                out.push(VT::Tuple(ts[1..].to_vec()));
                let mut sw = ts.clone();
                sw.swap(0, 1);
                out.push(VT::Tuple(sw));
            }
        }
        VT::Named(i) => {
            out.push(VT::Named(i.wrapping_add(1)));
            out.push(VT::Prim(0));
        }
    }
    out
}

pub fn mutations(k: &K) -> Vec<K> {
    let mut out = vec![];
    match k {
        K::Func(f) => {
            out.push(K::Func(FuncK { is_async: !f.is_async, ..f.clone() }));
            out.push(K::Func(FuncK { result: None, ..f.clone() }));
            out.push(K::Func(FuncK { result: Some(VT::Prim(3)), ..f.clone() }));
            if let Some(r) = &f.result {
                for m in vt_mutations(r).into_iter().take(4) {
                    out.push(K::Func(FuncK { result: Some(m), ..f.clone() }));
                }
            }
            let mut more = f.clone();
            more.params.push(("extra".into(), VT::Prim(0)));
            out.push(K::Func(more));
            if !f.params.is_empty() {
                let mut fewer = f.clone();
                fewer.params.pop();
                out.push(K::Func(fewer));
                let mut renamed = f.clone();
                renamed.params[0].0 = format!("{}-x", renamed.params[0].0);
                out.push(K::Func(renamed));
                for m in vt_mutations(&f.params[0].1).into_iter().take(4) {
                    let mut c = f.clone();
                    c.params[0].1 = m;
                    out.push(K::Func(c));
                }
            }
            if f.params.len() > 1 {
                let mut sw = f.clone();
                sw.params.swap(0, 1);
                out.push(K::Func(sw));
            }
        }
        K::Instance(ex) => {
            let mut more = ex.clone();
            more.push(("extra".into(), K::Func(FuncK { params: vec![], result: None, is_async: false })));
            out.push(K::Instance(more));
            if !ex.is_empty() {
                let mut fewer = ex.clone();
                fewer.pop();
                out.push(K::Instance(fewer));
                let mut renamed = ex.clone();
                renamed[0].0 = format!("{}-x", renamed[0].0);
                out.push(K::Instance(renamed));
                for m in mutations(&ex[0].1).into_iter().take(4) {
                    let mut c = ex.clone();
                    c[0].1 = m;
                    out.push(K::Instance(c));
                }
                let mut rev = ex.clone();
                rev.reverse();
                out.push(K::Instance(rev));
            }
            out.push(K::Func(FuncK { params: vec![], result: None, is_async: false }));
        }
        K::Component { imports, exports } => {
            let f0 = K::Func(FuncK { params: vec![], result: None, is_async: false });
            let mut c = imports.clone();
            c.push(("extra-import".into(), f0.clone()));
            out.push(K::Component { imports: c, exports: exports.clone() });
            let mut c = exports.clone();
            c.push(("extra-export".into(), f0.clone()));
            out.push(K::Component { imports: imports.clone(), exports: c });
            if !imports.is_empty() {
                let mut c = imports.clone();
                c.pop();
                out.push(K::Component { imports: c, exports: exports.clone() });
                for m in mutations(&imports[0].1).into_iter().take(3) {
                    let mut c = imports.clone();
                    c[0].1 = m;
                    out.push(K::Component { imports: c, exports: exports.clone() });
                }
            }
            if !exports.is_empty() {
                let mut c = exports.clone();
                c.pop();
                out.push(K::Component { imports: imports.clone(), exports: c });
                for m in mutations(&exports[0].1).into_iter().take(3) {
                    let mut c = exports.clone();
                    c[0].1 = m;
                    out.push(K::Component { imports: imports.clone(), exports: c });
                }
            }
            out.push(K::Component { imports: exports.clone(), exports: imports.clone() });
            out.push(K::Instance(exports.clone()));
        }
        K::Module { imports, exports } => {
            let core_muts = |e: &CoreExt| -> Vec<CoreExt> {
                match e {
                    CoreExt::Func(p, r) => vec![CoreExt::Func(r.clone(), p.clone()), CoreExt::Func([p.clone(), vec![0]].concat(), r.clone()), CoreExt::Func(p.clone(), vec![])],
                    CoreExt::Memory { min, max, shared, m64 } => vec![
                        CoreExt::Memory { min: min + 1, max: *max, shared: *shared, m64: *m64 },
                        CoreExt::Memory { min: min.saturating_sub(1), max: *max, shared: *shared, m64: *m64 },
                        CoreExt::Memory { min: *min, max: Some(max.unwrap_or(*min) + 2), shared: *shared, m64: *m64 },
                        CoreExt::Memory { min: *min, max: None, shared: false, m64: *m64 },
                        CoreExt::Memory { min: *min, max: *max, shared: !*shared, m64: *m64 },
                        CoreExt::Memory { min: *min, max: *max, shared: *shared, m64: !*m64 },
                    ],
                    CoreExt::Table { min, max, externref } => vec![
                        CoreExt::Table { min: min + 1, max: *max, externref: *externref },
                        CoreExt::Table { min: min.saturating_sub(1), max: *max, externref: *externref },
                        CoreExt::Table { min: *min, max: Some(max.unwrap_or(*min) + 2), externref: *externref },
                        CoreExt::Table { min: *min, max: None, externref: *externref },
                        CoreExt::Table { min: *min, max: *max, externref: !*externref },
                    ],
                    CoreExt::Global { ty, mutable } => vec![CoreExt::Global { ty: ty.wrapping_add(1), mutable: *mutable }, CoreExt::Global { ty: *ty, mutable: !*mutable }],
                    CoreExt::Tag(p) => vec![CoreExt::Tag([p.clone(), vec![1]].concat()), CoreExt::Tag(vec![])],
                }
            };
            for (i, (_, _, e)) in imports.iter().enumerate() {
                for m in core_muts(e) {
                    let mut c = imports.clone();
                    c[i].2 = m;
                    out.push(K::Module { imports: c, exports: exports.clone() });
                }
            }
            for (i, (_, e)) in exports.iter().enumerate() {
                for m in core_muts(e) {
                    let mut c = exports.clone();
                    c[i].1 = m;
                    out.push(K::Module { imports: imports.clone(), exports: c });
                }
            }
            let mut c = exports.clone();
            c.push(("extra".into(), CoreExt::Func(vec![], vec![])));
            out.push(K::Module { imports: imports.clone(), exports: c });
            let mut c = imports.clone();
            c.push(("m".into(), "extra".into(), CoreExt::Func(vec![], vec![])));
            out.push(K::Module { imports: c, exports: exports.clone() });
            if !imports.is_empty() {
                let mut c = imports.clone();
                c.pop();
                out.push(K::Module { imports: c, exports: exports.clone() });
            }
            if !exports.is_empty() {
                let mut c = exports.clone();
                c.pop();
                out.push(K::Module { imports: imports.clone(), exports: c });
            }
        }
        K::TypeOf(i) => {
            out.push(K::TypeOf(i.wrapping_add(1)));
            out.push(K::TypeOf(i.wrapping_add(2)));
        }
        K::Value(t) => {
            for m in vt_mutations(t) {
                out.push(K::Value(m));
            }
        }
    }
    out.iter_mut().for_each(sanitize);
    out
}

/// named defs with a neighbourhood of their own (rename field, reorder, add/drop, change type)
fn def_family() -> Vec<Def> {
    let r = vec![("a".to_string(), VT::Prim(0)), ("b".to_string(), VT::Prim(12))];
    vec![
        Def::Record(r.clone()),
        Def::Record(vec![("a".to_string(), VT::Prim(0)), ("c".to_string(), VT::Prim(12))]),
        Def::Record(vec![("b".to_string(), VT::Prim(12)), ("a".to_string(), VT::Prim(0))]),
        Def::Record(vec![("a".to_string(), VT::Prim(0))]),
        Def::Record(vec![("a".to_string(), VT::Prim(1)), ("b".to_string(), VT::Prim(12))]),
        Def::Record(r),
        Def::Variant(vec![("x".to_string(), None), ("y".to_string(), Some(VT::Prim(4)))]),
        Def::Variant(vec![("x".to_string(), None), ("y".to_string(), Some(VT::Prim(5)))]),
        Def::Variant(vec![("x".to_string(), None), ("z".to_string(), Some(VT::Prim(4)))]),
        Def::Variant(vec![("x".to_string(), Some(VT::Prim(4))), ("y".to_string(), None)]),
        Def::Variant(vec![("x".to_string(), None)]),
        Def::Enum(vec!["p".into(), "q".into()]),
        Def::Enum(vec!["q".into(), "p".into()]),
        Def::Enum(vec!["p".into(), "q".into(), "r".into()]),
        Def::Enum(vec!["p".into()]),
        Def::Flags(vec!["p".into(), "q".into()]),
        Def::Flags(vec!["q".into(), "p".into()]),
        Def::Flags(vec!["p".into()]),
        Def::Variant(vec![("p".to_string(), None), ("q".to_string(), None)]),
    ]
}

// ---------------------------------------------------------------------------------------------
// the check

pub struct Verdicts {
    pub n: usize,
    pub reference: Vec<Vec<bool>>,
}

fn reference_matrix(bytes: &[u8], n: usize) -> Result<Verdicts, String> {
    let mut v = wasmparser::Validator::new_with_features(wasmparser::WasmFeatures::all());
    let types = v.validate_all(bytes).map_err(|e| format!("reference validator rejects the batch component: {e}"))?;
    let tr = types.as_ref();
    let mut ents = vec![];
    for i in 0..n {
        ents.push(tr.component_entity_type_of_import(&format!("t{i}")).ok_or_else(|| format!("import t{i} not found"))?);
    }
    let mut m = vec![vec![false; n]; n];
    for i in 0..n {
        for j in 0..n {
            m[i][j] = wasmparser::component_types::ComponentEntityType::is_subtype_of(&ents[i], tr, &ents[j], tr);
        }
    }
    Ok(Verdicts { n, reference: m })
}

fn check_batch(b: &Batch) -> Outcome {
    let mut b = b.clone();
    b.kinds.iter_mut().for_each(sanitize);
    let n = b.kinds.len();
    let wat_text = b.wat();
    let mut o = Outcome::pass().rendered(json!({"wat": wat_text}));
    let bytes = match wat::parse_str(&wat_text) {
        Ok(b) => b,
        Err(e) => return o.with_verdict(Verdict::GenInvalid(format!("wat rejects the batch: {e}"))),
    };
    let reference = match reference_matrix(&bytes, n) {
        Ok(r) => r,
        Err(e) => return o.with_verdict(Verdict::GenInvalid(e)),
    };
    // two independent decodes
    let decode = |bytes: &[u8]| -> Result<(Types, Vec<ItemKind>, Package), String> {
        let mut types = Types::default();
        let pkg = Package::from_bytes("test:batch", None, bytes.to_vec(), &mut types).map_err(|e| format!("{e:#}"))?;
        let world = &types[pkg.ty()];
        let mut kinds = vec![];
        for i in 0..n {
            kinds.push(*world.imports.get(&format!("t{i}")).ok_or_else(|| format!("decoded world lacks import t{i}"))?);
        }
        Ok((types, kinds, pkg))
    };
    let (t1, k1, _) = match guarded(|| decode(&bytes)) {
        Ok(Ok(x)) => x,
        Ok(Err(e)) => return o.with_verdict(Verdict::Foreign(format!("Package::from_bytes rejects a valid component (C08's obligation): {e}"))),
        Err(p) => return o.with_verdict(Verdict::Foreign(format!("Package::from_bytes panicked (C14's obligation): {p}"))),
    };
    let (t2, k2, _) = match guarded(|| decode(&bytes)) {
        Ok(Ok(x)) => x,
        _ => return o.with_verdict(Verdict::Foreign("second decode failed".into())),
    };
    let mut comparisons = 0u64;
    let mut boundary = 0u64;
    let mut wac_m = vec![vec![false; n]; n];
    // (a) fresh memo per pair, same collection
    for i in 0..n {
        for j in 0..n {
            let mut cache = Default::default();
            let r = guarded(|| SubtypeChecker::new(&mut cache).is_subtype(k1[i], &t1, k1[j], &t1));
            let got = match r {
                Ok(r) => r.is_ok(),
                Err(p) => return o.with_verdict(Verdict::Fail { sig: format!("C07/panic:{}", panic_sig(&p)), msg: format!("is_subtype panicked on t{i} vs t{j}: {p}\n{wat_text}") }),
            };
            wac_m[i][j] = got;
            comparisons += 1;
            let want = reference.reference[i][j];
            if i != j && b.kinds[i] != b.kinds[j] {
                boundary += 1;
            }
            if got != want {
                let kind = if b.kinds[i].class() != b.kinds[j].class() { "cross-kind".to_string() } else { b.kinds[i].class().to_string() };
                return o.with_verdict(Verdict::Fail {
                    sig: format!("C07/verdict-differs:{kind}:{}", if got { "wac-accepts" } else { "wac-rejects" }),
                    msg: format!("t{i} <: t{j}: wac says {got}, the reference validator says {want}\n a = {}\n b = {}\n--- batch ---\n{wat_text}", b.kinds[i].wat(b.defs.len(), false), b.kinds[j].wat(b.defs.len(), false)),
                });
            }
        }
    }
    // (b) reflexivity across independently decoded copies, both directions
    for i in 0..n {
        let mut cache = Default::default();
        let a = SubtypeChecker::new(&mut cache).is_subtype(k1[i], &t1, k2[i], &t2).is_ok();
        let mut cache = Default::default();
        let bb = SubtypeChecker::new(&mut cache).is_subtype(k2[i], &t2, k1[i], &t1).is_ok();
        comparisons += 2;
        if !(a && bb) {
            return o.with_verdict(Verdict::Fail { sig: format!("C07/not-reflexive-across-decodes:{}", b.kinds[i].class()), msg: format!("t{i} of one decode is not a subtype of t{i} of another decode ({a},{bb}): {}\n{wat_text}", b.kinds[i].wat(b.defs.len(), false)) });
        }
    }
    // (c) cross-collection verdicts agree with same-collection ones
    for i in 0..n {
        for j in 0..n {
            let mut cache = Default::default();
            let got = SubtypeChecker::new(&mut cache).is_subtype(k1[i], &t1, k2[j], &t2).is_ok();
            comparisons += 1;
            if got != wac_m[i][j] {
                return o.with_verdict(Verdict::Fail { sig: "C07/verdict-depends-on-collection".into(), msg: format!("t{i} <: t{j} is {} within one decode but {got} across two decodes\n{wat_text}", wac_m[i][j]) });
            }
        }
    }
    // (d) transitivity of wac's relation
    for i in 0..n {
        for j in 0..n {
            if !wac_m[i][j] {
                continue;
            }
            for k in 0..n {
                if wac_m[j][k] && !wac_m[i][k] {
                    return o.with_verdict(Verdict::Fail { sig: "C07/not-transitive".into(), msg: format!("t{i}<:t{j} and t{j}<:t{k} but not t{i}<:t{k}\n{wat_text}") });
                }
            }
        }
    }
    // (e) one shared memo over all pairs in a scrambled order: verdicts must not change
    {
        let mut cache = Default::default();
        let mut order: Vec<(usize, usize)> = (0..n).flat_map(|i| (0..n).map(move |j| (i, j))).collect();
        let mut s = 0x9E37u64 + n as u64;
        for x in (1..order.len()).rev() {
            s = splitmix(s);
            order.swap(x, (s % (x as u64 + 1)) as usize);
        }
        for (i, j) in order {
            let got = SubtypeChecker::new(&mut cache).is_subtype(k1[i], &t1, k1[j], &t1).is_ok();
            comparisons += 1;
            if got != wac_m[i][j] {
                return o.with_verdict(Verdict::Fail { sig: "C07/memo-changes-verdict".into(), msg: format!("with a memo populated by earlier checks t{i} <: t{j} is {got}; with an empty memo it is {}\n{wat_text}", wac_m[i][j]) });
            }
        }
    }
    // (f) the graph route: set_instantiation_argument on a graph whose memo persists
    {
        let mut g = CompositionGraph::new();
        let pkg = match Package::from_bytes("test:batch", None, bytes.clone(), g.types_mut()) {
            Ok(p) => p,
            Err(_) => return o.with_verdict(Verdict::Foreign("decode into graph types failed".into())),
        };
        let ty = pkg.ty();
        let id = g.register_package(pkg).unwrap();
        let kinds: Vec<ItemKind> = (0..n).map(|i| g.types()[ty].imports[&format!("t{i}")]).collect();
        let nodes: Vec<_> = (0..n).map(|i| g.import(format!("x{i}"), kinds[i]).unwrap()).collect();
        let inst = g.instantiate(id);
        for round in 0..2 {
            for i in 0..n {
                for j in 0..n {
                    let (i, j) = if round == 1 { (n - 1 - i, n - 1 - j) } else { (i, j) };
                    let r = guarded(|| g.set_instantiation_argument(inst, &format!("t{j}"), nodes[i]));
                    let got = match r {
                        Ok(Ok(())) => {
                            g.unset_instantiation_argument(inst, &format!("t{j}"), nodes[i]).unwrap();
                            true
                        }
                        Ok(Err(InstantiationArgumentError::ArgumentTypeMismatch { .. })) => false,
                        Ok(Err(e)) => return o.with_verdict(Verdict::Fail { sig: "C07/graph-route-unexpected-error".into(), msg: format!("set_instantiation_argument(t{j} := x{i}) returned {e}") }),
                        Err(p) => return o.with_verdict(Verdict::Foreign(format!("set_instantiation_argument panicked: {p}"))),
                    };
                    comparisons += 1;
                    if got != reference.reference[i][j] {
                        return o.with_verdict(Verdict::Fail {
                            sig: format!("C07/graph-route-differs:{}", if got { "accepted" } else { "rejected" }),
                            msg: format!("(round {round}) set_instantiation_argument(t{j} := node of kind t{i}) {}; the reference validator says t{i} <: t{j} is {}\n{wat_text}", if got { "was accepted" } else { "was rejected with ArgumentTypeMismatch" }, reference.reference[i][j]),
                        });
                    }
                }
            }
        }
    }
    // (g) the verdict does not depend on earlier arguments: the node stays connected as `t_i` while it is offered
    //     for every other argument
    {
        let mut g = CompositionGraph::new();
        if let Ok(pkg) = Package::from_bytes("test:batch", None, bytes.clone(), g.types_mut()) {
            let ty = pkg.ty();
            let id = g.register_package(pkg).unwrap();
            let kinds: Vec<ItemKind> = (0..n).map(|i| g.types()[ty].imports[&format!("t{i}")]).collect();
            let nodes: Vec<_> = (0..n).map(|i| g.import(format!("x{i}"), kinds[i]).unwrap()).collect();
            let inst = g.instantiate(id);
            for i in 0..n {
                if !reference.reference[i][i] || !matches!(guarded(|| g.set_instantiation_argument(inst, &format!("t{i}"), nodes[i])), Ok(Ok(()))) {
                    continue;
                }
                for j in 0..n {
                    if j == i {
                        continue;
                    }
                    let got = match guarded(|| g.set_instantiation_argument(inst, &format!("t{j}"), nodes[i])) {
                        Ok(Ok(())) => {
                            let listed = g.get_instantiation_arguments(inst).any(|(a, s)| a == format!("t{j}") && s == nodes[i]);
                            if !listed {
                                return o.with_verdict(Verdict::Fail { sig: "C07/accepted-argument-not-set".into(), msg: format!("set_instantiation_argument(t{j} := x{i}) returned Ok while x{i} was already passed as t{i}, but t{j} is not among the arguments\n{wat_text}") });
                            }
                            let _ = g.unset_instantiation_argument(inst, &format!("t{j}"), nodes[i]);
                            true
                        }
                        Ok(Err(InstantiationArgumentError::ArgumentTypeMismatch { .. })) => false,
                        Ok(Err(_)) | Err(_) => continue,
                    };
                    comparisons += 1;
                    if got != reference.reference[i][j] {
                        return o.with_verdict(Verdict::Fail { sig: format!("C07/verdict-depends-on-earlier-arguments:{}", if got { "accepted" } else { "rejected" }), msg: format!("with x{i} already passed as t{i}, set_instantiation_argument(t{j} := x{i}) {}; the reference validator says t{i} <: t{j} is {}\n{wat_text}", if got { "was accepted" } else { "was rejected" }, reference.reference[i][j]) });
                    }
                }
                let _ = g.unset_instantiation_argument(inst, &format!("t{i}"), nodes[i]);
            }
        }
    }
    let subs = reference.reference.iter().enumerate().map(|(i, r)| r.iter().enumerate().filter(|(j, v)| **v && *j != i).count()).sum::<usize>();
    o = o.label(format!("batch-of-{}", b.kinds[0].class()));
    if subs > 0 {
        o = o.label("has-strict-subtype-pairs");
    }
    o.nontrivial(boundary > 0).comparisons(comparisons)
}

// ---------------------------------------------------------------------------------------------
// generators

fn vt_strategy() -> impl Strategy<Value = VT> {
    let leaf = prop_oneof![5 => any::<u8>().prop_map(VT::Prim), 2 => any::<u8>().prop_map(VT::Named), 1 => Just(VT::Result(None, None))];
    leaf.prop_recursive(2, 6, 3, |inner| {
        prop_oneof![
            inner.clone().prop_map(|t| VT::List(Box::new(t))),
            inner.clone().prop_map(|t| VT::Option(Box::new(t))),
            (proptest::option::of(inner.clone()), proptest::option::of(inner.clone())).prop_map(|(a, b)| VT::Result(a.map(Box::new), b.map(Box::new))),
            proptest::collection::vec(inner, 1..3).prop_map(VT::Tuple),
        ]
    })
}

fn name_strategy() -> impl Strategy<Value = String> {
    proptest::sample::select(vec!["a", "b", "c", "foo", "bar-baz", "x1"]).prop_map(|s| s.to_string())
}

fn func_strategy() -> impl Strategy<Value = FuncK> {
    (proptest::collection::vec((name_strategy(), vt_strategy()), 0..3), proptest::option::of(vt_strategy()), proptest::bool::weighted(0.2)).prop_map(|(params, result, is_async)| FuncK { params, result, is_async })
}

fn core_strategy() -> impl Strategy<Value = CoreExt> {
    prop_oneof![
        (proptest::collection::vec(0u8..4, 0..3), proptest::collection::vec(0u8..4, 0..2)).prop_map(|(p, r)| CoreExt::Func(p, r)),
        (0u32..4, proptest::option::of(0u32..6), any::<bool>(), proptest::bool::weighted(0.2)).prop_map(|(min, max, shared, m64)| CoreExt::Memory { min, max, shared, m64 }),
        (0u32..4, proptest::option::of(0u32..6), any::<bool>()).prop_map(|(min, max, externref)| CoreExt::Table { min, max, externref }),
        (0u8..4, any::<bool>()).prop_map(|(ty, mutable)| CoreExt::Global { ty, mutable }),
        proptest::collection::vec(0u8..4, 0..2).prop_map(CoreExt::Tag),
    ]
}

fn kind_strategy() -> impl Strategy<Value = K> {
    let func = func_strategy().prop_map(K::Func);
    fn simple_func() -> BoxedStrategy<K> {
        (proptest::collection::vec((name_strategy(), any::<u8>().prop_map(VT::Prim)), 0..2), proptest::option::of(any::<u8>().prop_map(VT::Prim))).prop_map(|(params, result)| K::Func(FuncK { params, result, is_async: false })).boxed()
    }
    let inst = proptest::collection::vec((name_strategy(), simple_func()), 0..3).prop_map(K::Instance);
    let nested_inst = (proptest::collection::vec((name_strategy(), simple_func()), 0..2), proptest::collection::vec((name_strategy(), simple_func()), 0..2)).prop_map(|(a, b)| {
        let mut v = a;
        v.push(("inner".into(), K::Instance(b)));
        K::Instance(v)
    });
    let comp = (proptest::collection::vec((name_strategy(), simple_func()), 0..3), proptest::collection::vec((name_strategy(), simple_func()), 0..3)).prop_map(|(imports, exports)| K::Component { imports, exports });
    let module = (proptest::collection::vec((Just("m".to_string()), name_strategy(), core_strategy()), 0..3), proptest::collection::vec((name_strategy(), core_strategy()), 0..3)).prop_map(|(imports, exports)| K::Module { imports, exports });
    prop_oneof![4 => func, 3 => inst, 1 => nested_inst, 2 => comp, 3 => module, 1 => any::<u8>().prop_map(K::TypeOf), 1 => vt_strategy().prop_map(K::Value)]
}

#[derive(Clone, Debug, Serialize, Deserialize)]
pub struct Seed {
    pub base: K,
    pub extra: Vec<K>,
}

fn batch_of(seed: &Seed) -> Batch {
    let mut kinds = vec![seed.base.clone()];
    kinds.extend(mutations(&seed.base));
    kinds.extend(seed.extra.iter().cloned());
    kinds.truncate(28);
    Batch { defs: def_family(), kinds }
}

fn fixed_bases() -> Vec<K> {
    let f = |params: Vec<(&str, VT)>, result: Option<VT>| K::Func(FuncK { params: params.into_iter().map(|(n, t)| (n.to_string(), t)).collect(), result, is_async: false });
    let f0 = f(vec![], None);
    vec![
        f0.clone(),
        f(vec![("a", VT::Prim(0)), ("b", VT::Prim(12))], Some(VT::Prim(4))),
        f(vec![("a", VT::Named(0))], Some(VT::Named(6))),
        f(vec![("a", VT::List(Box::new(VT::Named(11))))], Some(VT::Result(Some(Box::new(VT::Named(15))), Some(Box::new(VT::Prim(12)))))),
        f(vec![("a", VT::Tuple(vec![VT::Prim(0), VT::Prim(1)]))], Some(VT::Option(Box::new(VT::Prim(2))))),
        f(vec![], Some(VT::Result(None, Some(Box::new(VT::Prim(12)))))),
        K::Instance(vec![("f".into(), f0.clone()), ("g".into(), f(vec![("x", VT::Prim(0))], None))]),
        K::Instance(vec![("f".into(), f0.clone()), ("inner".into(), K::Instance(vec![("h".into(), f0.clone())]))]),
        K::Instance(vec![]),
        K::Component { imports: vec![("i".into(), f0.clone())], exports: vec![("e".into(), f0.clone()), ("e2".into(), f(vec![("x", VT::Prim(0))], None))] },
        K::Component { imports: vec![("i".into(), K::Instance(vec![("f".into(), f0.clone())]))], exports: vec![("e".into(), K::Instance(vec![("f".into(), f0.clone())]))] },
        K::Component { imports: vec![], exports: vec![] },
        K::Module { imports: vec![("m".into(), "mem".into(), CoreExt::Memory { min: 1, max: Some(3), shared: false, m64: false })], exports: vec![("t".into(), CoreExt::Table { min: 1, max: Some(3), externref: false }), ("f".into(), CoreExt::Func(vec![0], vec![1]))] },
        K::Module { imports: vec![("m".into(), "g".into(), CoreExt::Global { ty: 0, mutable: false }), ("m".into(), "t".into(), CoreExt::Table { min: 2, max: None, externref: true })], exports: vec![("mem".into(), CoreExt::Memory { min: 2, max: Some(4), shared: true, m64: false }), ("tag".into(), CoreExt::Tag(vec![0]))] },
        K::Module { imports: vec![], exports: vec![] },
        K::TypeOf(0),
        K::TypeOf(6),
        K::TypeOf(11),
        K::TypeOf(15),
        K::Value(VT::Prim(12)),
        K::Value(VT::List(Box::new(VT::Prim(0)))),
    ]
}

pub fn run(tier: Tier, seed: u64, replay: Option<&std::path::Path>) -> i32 {
    let mut run = Run::new(
        "C07",
        tier,
        seed,
        "exploration",
        "batches of up to 28 resource-free item kinds = a base kind + its whole single-feature mutation neighbourhood (param/field/case/export rename, reorder, add/drop, type change through list/option/result arms/tuples/named records-variants-enums-flags, async flag, result presence, instance/component width and depth, component import contravariance, module limits/shared/memory64/table element/global mutability/tag/func signatures) + random kinds. Each batch is one component importing every kind; the reference verdict for all ordered pairs is wasmparser's ComponentEntityType::is_subtype_of on the validated component. Compared with: SubtypeChecker on a fresh memo, across two independent decodes (reflexivity both ways; verdict independent of the collection), transitivity, one memo shared over all pairs in scrambled order, and set_instantiation_argument Ok/ArgumentTypeMismatch on a graph whose memo persists (two sweeps in opposite orders). Exhaustive for the 21 fixed bases' neighbourhoods; random bases beyond. Non-trivial = the batch contains non-identical pairs. Distinct by JSON hash.",
    );
    run.exhaustive = Some(true);
    run.assume("resource-free kinds only (the statement's first clause); the resource clause is covered by C01's validation of accepted wirings");
    if let Some(p) = replay {
        run.replay_case::<Seed, _>(p, |s| check_batch(&batch_of(s)));
        return run.finish();
    }
    let fixed: Vec<Seed> = fixed_bases().into_iter().map(|base| Seed { base, extra: vec![] }).collect();
    run.enumerate(&fixed, |s| check_batch(&batch_of(s)));
    let n = tier.pick(4000, 60_000);
    run.explore(1, 16, n / 16, || (kind_strategy(), proptest::collection::vec(kind_strategy(), 0..6)).prop_map(|(base, extra)| Seed { base, extra }), |s| check_batch(&batch_of(s)));
    for l in ["batch-of-func", "batch-of-instance", "batch-of-component", "batch-of-module", "batch-of-type", "batch-of-value", "has-strict-subtype-pairs"] {
        run.floor(l, 2);
    }
    run.finish()
}
