//! C15 — semver-compatible name matching is the semver track relation; highest wins.
//!
//! Oracle (O-semver), written from the statement: split the name at the first `@`; the rest must be
//! a valid semver version (validity delegated to the third-party `semver` crate); track = major if
//! major>0, (0,minor) if minor>0, none for 0.0.x and for pre-releases; build metadata ignored.
//! Nothing of wac's string slicing is reused: the track is computed from the parsed numbers.

use crate::engine::*;
use proptest::prelude::*;
use serde::{Deserialize, Serialize};
use serde_json::json;
use wac_types::{are_semver_compatible, NameMap, NameMapNoIntern};

#[derive(Clone, Debug, PartialEq, Eq, PartialOrd, Ord)]
enum Track {
    Major(u64),
    ZeroMinor(u64),
}

#[derive(Clone, Debug)]
struct RefName {
    base: String,
    version: Option<semver::Version>,
    track: Option<Track>,
}

fn ref_parse(name: &str) -> RefName {
    match name.split_once('@') {
        None => RefName { base: name.to_string(), version: None, track: None },
        Some((base, v)) => match semver::Version::parse(v) {
            Err(_) => RefName { base: base.to_string(), version: None, track: None },
            Ok(ver) => {
                let track = if !ver.pre.is_empty() {
                    None
                } else if ver.major > 0 {
                    Some(Track::Major(ver.major))
                } else if ver.minor > 0 {
                    Some(Track::ZeroMinor(ver.minor))
                } else {
                    None
                };
                RefName { base: base.to_string(), version: Some(ver), track }
            }
        },
    }
}

fn ref_compatible(a: &str, b: &str) -> bool {
    if a == b {
        return true;
    }
    let (ra, rb) = (ref_parse(a), ref_parse(b));
    ra.base == rb.base && ra.track.is_some() && ra.track == rb.track
}

/// Precedence comparison ignoring build metadata (semver §10/§11).
fn prec_cmp(a: &semver::Version, b: &semver::Version) -> std::cmp::Ordering {
    a.cmp_precedence(b)
}

/// Reference map lookup: returns the set of acceptable answers (indices into `entries`), where
/// `entries` is the list of (name, value) after last-insert-wins de-duplication.
fn ref_get(entries: &[(String, u32)], name: &str) -> Vec<u32> {
    if let Some((_, v)) = entries.iter().find(|(n, _)| n == name) {
        return vec![*v];
    }
    let rn = ref_parse(name);
    let Some(track) = rn.track else { return vec![] };
    let mut best: Vec<(semver::Version, u32)> = vec![];
    for (n, v) in entries {
        let e = ref_parse(n);
        if e.base == rn.base && e.track.as_ref() == Some(&track) {
            let ver = e.version.unwrap();
            let ord = best.first().map(|(bv, _)| prec_cmp(&ver, bv));
            match ord {
                None => best.push((ver, *v)),
                Some(std::cmp::Ordering::Greater) => {
                    best.clear();
                    best.push((ver, *v));
                }
                Some(std::cmp::Ordering::Equal) => best.push((ver, *v)), // T5: build-metadata tie
                Some(std::cmp::Ordering::Less) => {}
            }
        }
    }
    best.into_iter().map(|(_, v)| v).collect()
}

fn universe() -> Vec<String> {
    let mut out = vec![];
    for base in ["a:b/c", "x"] {
        out.push(base.to_string());
        for ma in 0..3 {
            for mi in 0..3 {
                for pa in 0..3 {
                    for pre in ["", "-rc"] {
                        for build in ["", "+meta"] {
                            out.push(format!("{base}@{ma}.{mi}.{pa}{pre}{build}"));
                        }
                    }
                }
            }
        }
        for bad in ["1", "1.0", "1.0.0.0", "01.0.0", "", "1.0.0@2.0.0", "v1.0.0", "1.0.x", "1..0", "0.1", "1.0.0-", "1.0.0+"] {
            out.push(format!("{base}@{bad}"));
        }
    }
    out
}

#[derive(Clone, Debug, Serialize, Deserialize)]
pub struct PairCase {
    a: String,
    b: String,
}

#[derive(Clone, Debug, Serialize, Deserialize)]
pub struct MapCase {
    inserts: Vec<String>,
    lookups: Vec<String>,
}

fn check_pair(c: &PairCase) -> Outcome {
    let got = are_semver_compatible(&c.a, &c.b);
    let want = ref_compatible(&c.a, &c.b);
    let (ra, rb) = (ref_parse(&c.a), ref_parse(&c.b));
    let nontrivial = c.a != c.b && ra.base == rb.base && ra.version.is_some() && rb.version.is_some();
    let mut o = Outcome::pass().nontrivial(nontrivial).comparisons(2);
    o = o.label(if want { "compatible" } else { "incompatible" });
    if nontrivial {
        o = o.label("same-base-different-version");
    }
    if got != want {
        return o.with_verdict(Verdict::Fail {
            sig: "C15/compat-relation".into(),
            msg: format!("are_semver_compatible({:?},{:?}) = {got}, reference track relation says {want}", c.a, c.b),
        });
    }
    let back = are_semver_compatible(&c.b, &c.a);
    if back != got {
        return o.with_verdict(Verdict::Fail {
            sig: "C15/compat-symmetry".into(),
            msg: format!("not symmetric on {:?},{:?}: {got} vs {back}", c.a, c.b),
        });
    }
    o
}

fn check_map(c: &MapCase) -> Outcome {
    let mut map: NameMap<String, u32> = NameMap::default();
    let mut intern = NameMapNoIntern;
    let mut entries: Vec<(String, u32)> = vec![];
    for (i, n) in c.inserts.iter().enumerate() {
        if let Err(e) = map.insert(n, &mut intern, true, i as u32) {
            return Outcome::fail("C15/insert-shadowing-error", format!("insert({n:?}) with shadowing failed: {e}"));
        }
        entries.retain(|(m, _)| m != n);
        entries.push((n.clone(), i as u32));
    }
    // a non-shadowing duplicate insert must fail and change nothing
    let mut comparisons = 0;
    let mut on_track = std::collections::BTreeMap::<(String, Track), usize>::new();
    for (n, _) in &entries {
        let r = ref_parse(n);
        if let Some(t) = r.track {
            *on_track.entry((r.base, t)).or_default() += 1;
        }
    }
    let multi_track = on_track.values().any(|&n| n >= 2);
    let mut fallback_lookups = 0;
    for l in &c.lookups {
        let got = map.get(l, &intern).copied();
        let want = ref_get(&entries, l);
        comparisons += 1;
        let ok = match got {
            None => want.is_empty(),
            Some(v) => want.contains(&v),
        };
        if !entries.iter().any(|(n, _)| n == l) && !want.is_empty() {
            fallback_lookups += 1;
        }
        if !ok {
            let got_name = got.map(|v| c.inserts[v as usize].clone());
            let want_names: Vec<_> = want.iter().map(|v| c.inserts[*v as usize].clone()).collect();
            let sig = match (&got_name, want.is_empty()) {
                (Some(_), true) => "C15/map-returns-foreign-entry",
                (None, false) => "C15/map-misses-track-entry",
                _ => "C15/map-not-highest",
            };
            return Outcome::fail(
                sig,
                format!("inserts {:?}: get({l:?}) = {got_name:?}, reference allows {want_names:?}", c.inserts),
            );
        }
    }
    if let Some((n, _)) = entries.first() {
        let before: Vec<_> = c.lookups.iter().map(|l| map.get(l, &intern).copied()).collect();
        if map.insert(n, &mut intern, false, 9999).is_ok() {
            return Outcome::fail("C15/duplicate-insert-accepted", format!("non-shadowing re-insert of {n:?} succeeded"));
        }
        let after: Vec<_> = c.lookups.iter().map(|l| map.get(l, &intern).copied()).collect();
        if before != after {
            return Outcome::fail("C15/failed-insert-changed-map", format!("failed duplicate insert of {n:?} changed lookups"));
        }
    }
    let mut o = Outcome::pass().comparisons(comparisons).nontrivial(multi_track && fallback_lookups > 0);
    if multi_track {
        o = o.label("two-entries-on-one-track");
    }
    if fallback_lookups > 0 {
        o = o.label("semver-fallback-lookup");
    }
    o
}

fn permutations(items: &[usize]) -> Vec<Vec<usize>> {
    if items.len() <= 1 {
        return vec![items.to_vec()];
    }
    let mut out = vec![];
    for i in 0..items.len() {
        let mut rest = items.to_vec();
        let x = rest.remove(i);
        for mut p in permutations(&rest) {
            p.insert(0, x);
            out.push(p);
        }
    }
    out
}

fn version_strategy() -> impl Strategy<Value = String> {
    let num = prop_oneof![
        4 => (0u64..4).prop_map(|n| n.to_string()),
        2 => (0u64..200).prop_map(|n| n.to_string()),
        1 => any::<u64>().prop_map(|n| n.to_string()),
        1 => Just("01".to_string()),
        1 => Just("".to_string()),
    ];
    let pre = prop_oneof![
        6 => Just("".to_string()),
        2 => "-[a-z0-9]{1,4}(\\.[a-z0-9]{1,3}){0,2}",
        1 => Just("-".to_string()),
    ];
    let build = prop_oneof![
        6 => Just("".to_string()),
        2 => "\\+[a-z0-9]{1,4}(\\.[a-z0-9-]{1,3}){0,2}",
        1 => Just("+".to_string()),
    ];
    (proptest::collection::vec(num, 1..5), pre, build).prop_map(|(nums, pre, build)| format!("{}{pre}{build}", nums.join(".")))
}

fn name_strategy() -> impl Strategy<Value = String> {
    let base = prop_oneof![
        4 => Just("a:b/c".to_string()),
        2 => Just("a:b/cc".to_string()),
        2 => Just("x".to_string()),
        1 => Just("a.b:c.d/e.f".to_string()),
        1 => Just("a-b:c/d-e".to_string()),
        1 => Just("v1.2.3:p/q".to_string()),
        1 => "[a-z]{1,12}(:[a-z]{1,6}(/[a-z]{1,6})?)?",
    ];
    prop_oneof![
        1 => base.clone(),
        8 => (base.clone(), version_strategy()).prop_map(|(b, v)| format!("{b}@{v}")),
        1 => (base, version_strategy(), version_strategy()).prop_map(|(b, v, w)| format!("{b}@{v}@{w}")),
    ]
}

pub fn run(tier: Tier, seed: u64, replay: Option<&std::path::Path>) -> i32 {
    let mut run = Run::new(
        "C15",
        tier,
        seed,
        "exploration",
        "exhaustive: all ordered pairs of the small name universe (2 bases x {0,1,2}^3 versions x pre none|rc x build none|meta, unversioned, 12 malformed versions) for the compatibility relation incl. symmetry and transitivity over all triples; every insertion order of every 1..4-subset of a 12-name sub-universe followed by a lookup of every universe name against a reference map; random: names with large numbers, odd separators, extra '@'. Non-trivial pair = distinct names with one base and two valid versions; non-trivial map = >=2 entries on one track and at least one lookup answered by semver fallback. Distinct by JSON hash of the case.",
    );
    run.exhaustive = Some(true);
    run.assume("validity and precedence of version strings are delegated to the third-party `semver` crate");
    run.assume("T5: versions differing only in build metadata are a tie; either may be returned");
    if let Some(p) = replay {
        let text = std::fs::read_to_string(p).unwrap_or_default();
        if text.contains("\"inserts\"") {
            run.replay_case::<MapCase, _>(p, check_map);
        } else {
            run.replay_case::<PairCase, _>(p, check_pair);
        }
        return run.finish();
    }

    let uni = universe();
    // (1) all ordered pairs
    let mut pairs = vec![];
    for a in &uni {
        for b in &uni {
            pairs.push(PairCase { a: a.clone(), b: b.clone() });
        }
    }
    run.enumerate(&pairs, check_pair);

    // (2) equivalence: reflexive + transitive over all triples, computed on wac's verdict matrix
    let n = uni.len();
    let m: Vec<Vec<bool>> = uni.iter().map(|a| uni.iter().map(|b| are_semver_compatible(a, b)).collect()).collect();
    let mut triple_checks = 0u64;
    'outer: for i in 0..n {
        if !m[i][i] {
            run.record(&json!({"reflexive": uni[i]}), &Outcome::fail("C15/compat-reflexive", format!("{} not compatible with itself", uni[i])));
            break;
        }
        for j in 0..n {
            if !m[i][j] {
                continue;
            }
            for k in 0..n {
                triple_checks += 1;
                if m[j][k] && !m[i][k] {
                    run.record(
                        &json!({"a": uni[i], "b": uni[j], "c": uni[k]}),
                        &Outcome::fail("C15/compat-transitive", format!("{}~{} and {}~{} but not {}~{}", uni[i], uni[j], uni[j], uni[k], uni[i], uni[k])),
                    );
                    break 'outer;
                }
            }
        }
    }
    run.set_extra("transitivity_triples_checked", json!(triple_checks));
    run.set_extra("universe_size", json!(n));

    // (3) all insertion orders of all <=4-subsets of a 12-name sub-universe
    let sub: Vec<String> = [
        "a:b/c@1.0.0", "a:b/c@1.2.0", "a:b/c@1.2.1+meta", "a:b/c@2.0.0", "a:b/c@0.1.0", "a:b/c@0.1.2", "a:b/c@0.2.0", "a:b/c@0.0.1",
        "a:b/c@1.1.0-rc", "a:b/c", "x@1.0.0", "x@1.2.2",
    ]
    .iter()
    .map(|s| s.to_string())
    .collect();
    let subset_max = tier.pick(3, 4);
    let mut maps = vec![];
    let k = sub.len();
    for mask in 1u32..(1 << k) {
        let cnt = mask.count_ones() as usize;
        if cnt > subset_max {
            continue;
        }
        let idx: Vec<usize> = (0..k).filter(|i| mask & (1 << i) != 0).collect();
        for p in permutations(&idx) {
            maps.push(MapCase { inserts: p.iter().map(|i| sub[*i].clone()).collect(), lookups: uni.clone() });
        }
    }
    run.set_extra("insertion_orders_enumerated", json!(maps.len()));
    run.enumerate(&maps, check_map);

    // (4) random names
    let cases = tier.pick(4000, 60000);
    run.explore(1, 16, cases / 16, || (name_strategy(), name_strategy()).prop_map(|(a, b)| PairCase { a, b }), check_pair);
    // pairs that share a base by construction
    let same_base = || (version_strategy(), version_strategy(), prop_oneof![Just("a:b/c"), Just("a.b:c/d"), Just("x-y")])
        .prop_map(|(v, w, b)| PairCase { a: format!("{b}@{v}"), b: format!("{b}@{w}") });
    run.explore(2, 16, cases / 16, same_base, check_pair);
    let map_strat = || (proptest::collection::vec(name_strategy(), 1..7), proptest::collection::vec(name_strategy(), 1..10))
        .prop_map(|(inserts, mut lookups)| {
            // also look up perturbed versions of what was inserted
            for n in &inserts {
                if let Some((b, _)) = n.split_once('@') {
                    lookups.push(format!("{b}@1.0.0"));
                    lookups.push(format!("{b}@0.1.0"));
                }
                lookups.push(n.clone());
            }
            MapCase { inserts, lookups }
        });
    run.explore(3, 16, cases / 32, map_strat, check_map);
    run.finish()
}
