pub mod c15;
