pub mod c01;
pub mod c02;
pub mod c03;
pub mod c06;
pub mod c12;
pub mod c13;
pub mod c14;
pub mod c15;
