//! C10 — plugging satisfies every matchable socket import and re-exports the socket.

use crate::engine::*;
use crate::gen::wit::*;
use crate::oracle::wire::{self, Kind, Origin};
use crate::props::c01::validate;
use crate::props::c02::track_key;
use proptest::prelude::*;
use serde::{Deserialize, Serialize};
use serde_json::json;
use std::collections::{BTreeMap, BTreeSet};
use wac_graph::{plug, CompositionGraph, EncodeOptions, NodeKind, PlugError};
use wac_types::Package;
use wasmparser::component_types::ComponentEntityType;

#[derive(Clone, Debug, Serialize, Deserialize)]
pub struct Case {
    pub lib: LibSpec,
    pub socket: u16,
    /// plug order as indices into the remaining components
    pub plugs: Vec<u16>,
    /// per plug: exported functions take the socket's import of the same index as their signature
    #[serde(default)]
    pub mirror: Vec<bool>,
}

fn ref_semver_compatible(a: &str, b: &str) -> bool {
    a == b || (track_key(a) == track_key(b) && track_key(a) != a)
}

/// Reference type compatibility: plug export `e` <: socket import `s`, by the validator's own relation
/// on both components nested in one outer component.
fn ref_compatible(plug: &[u8], e: &str, socket: &[u8], s: &str) -> Result<bool, String> {
    let mut outer = wasm_encoder::Component::new();
    outer.section(&wasm_encoder::RawSection { id: 4, data: plug });
    outer.section(&wasm_encoder::RawSection { id: 4, data: socket });
    let outer = outer.finish();
    let mut v = wasmparser::Validator::new_with_features(wasmparser::WasmFeatures::all());
    let types = v.validate_all(&outer).map_err(|e| e.to_string())?;
    let tr = types.as_ref();
    let (p, sk) = (tr.component_at(0), tr.component_at(1));
    let a = tr[p].exports.get(e).cloned().ok_or("no such export")?;
    let b = tr[sk].imports.get(s).cloned().ok_or("no such import")?;
    Ok(ComponentEntityType::is_subtype_of(&a, tr, &b, tr))
}

fn names_of(bytes: &[u8]) -> Result<(Vec<String>, Vec<String>), String> {
    let w = wire::decode(bytes)?;
    Ok((w.imports.iter().map(|i| i.name.clone()).collect(), w.exports.iter().map(|e| e.0.clone()).collect()))
}

fn check(c: &Case) -> Outcome {
    let mut lib = build_lib(&c.lib);
    if lib.comps.len() < 2 {
        return Outcome::pass().label("too-few-components");
    }
    let si = (c.socket as usize * lib.comps.len()) >> 16;
    let rest: Vec<usize> = (0..lib.comps.len()).filter(|i| *i != si).collect();
    let mut plug_idx: Vec<usize> = vec![];
    for p in &c.plugs {
        let i = rest[(*p as usize * rest.len()) >> 16];
        if !plug_idx.contains(&i) {
            plug_idx.push(i);
        }
    }
    if plug_idx.is_empty() {
        plug_idx.push(rest[0]);
    }
    // plugs export their functions under the names the socket imports them by (`f<k>`), optionally with the
    // socket's signature, so that bare functions collide by name with equal and with different types
    let socket_sigs: Vec<(String, FuncSig)> = lib.comps[si].items.iter().filter_map(|i| if let WorldItem::ImportFunc(n, s) = i { Some((n.clone(), s.clone())) } else { None }).collect();
    for (k, i) in plug_idx.iter().enumerate() {
        let mirror = c.mirror.get(k).copied().unwrap_or(false);
        for it in lib.comps[*i].items.iter_mut() {
            if let WorldItem::ExportFunc(n, sig) = it {
                *n = n.replacen('g', "f", 1);
                if mirror {
                    if let Some((_, s)) = socket_sigs.iter().find(|(m, _)| m == n) {
                        *sig = s.clone();
                    }
                }
            }
        }
    }
    let comps = match build_library_with(&lib, (c.lib.versions / 8) % 2 == 0) {
        Ok(c) => c,
        Err(e) => return Outcome::gen_invalid(e),
    };
    let has_resources = lib_features(&lib).contains(&"resources");
    let api_index = |name: &str| -> Option<(usize, usize)> {
        for (p, a) in lib.apis.iter().enumerate() {
            for i in 0..a.ifaces.len() {
                if a.iface_path(i) == name {
                    return Some((p, i));
                }
            }
        }
        None
    };
    let socket = &comps[si];
    let (s_imports, s_exports) = match names_of(&socket.bytes) {
        Ok(x) => x,
        Err(e) => return Outcome::gen_invalid(e),
    };
    // ---- reference algorithm
    let mut offers: BTreeMap<String, Vec<(usize, String)>> = BTreeMap::new();
    // every compatible (import, plug, export) pair under an equal or semver-compatible name, for tolerance T4
    let mut all_pairs: Vec<(String, usize, String)> = vec![];
    let mut semver_fallback = false;
    let mut incompatible_same_name = false;
    for (pi, i) in plug_idx.iter().enumerate() {
        let (_, p_exports) = match names_of(&comps[*i].bytes) {
            Ok(x) => x,
            Err(e) => return Outcome::gen_invalid(e),
        };
        for e in &p_exports {
            for s in s_imports.iter().filter(|s| ref_semver_compatible(e, s)) {
                let sub = ref_compatible(&comps[*i].bytes, e, &socket.bytes, s).unwrap_or(false);
                let ok = match (api_index(e), api_index(s)) {
                    (Some((pe, ie)), Some((ps, is))) => ie == is && pe >= ps,
                    _ => sub,
                };
                if ok {
                    all_pairs.push((s.clone(), pi, e.clone()));
                }
            }
            let target = if s_imports.contains(e) { Some(e.clone()) } else { s_imports.iter().find(|s| ref_semver_compatible(e, s)).cloned() };
            let Some(s) = target else { continue };
            let sub = match ref_compatible(&comps[*i].bytes, e, &socket.bytes, &s) {
                Ok(b) => b,
                Err(e) => return Outcome::gen_invalid(format!("reference compatibility check failed: {e}")),
            };
            // API interfaces: version k has the items of version k-1 plus one function, types unchanged, so an
            // export is compatible iff its version index is >= the import's.  The validator's relation is
            // stricter only where abstract resources are involved (it does not open them).
            let compat = match (api_index(e), api_index(&s)) {
                (Some((pe, ie)), Some((ps, is))) => {
                    let model = ie == is && pe >= ps;
                    if (sub && !model) || (!has_resources && sub != model) {
                        return Outcome::gen_invalid(format!("the two references disagree on {e} <: {s}: validator {sub}, model {model}"));
                    }
                    model
                }
                _ => sub,
            };
            match Ok::<bool, String>(compat) {
                Ok(true) => {
                    if &s != e {
                        semver_fallback = true;
                    }
                    offers.entry(s).or_default().push((pi, e.clone()));
                }
                Ok(false) => {
                    if &s == e {
                        incompatible_same_name = true;
                    }
                }
                Err(e) => return Outcome::gen_invalid(format!("reference compatibility check failed: {e}")),
            }
        }
    }
    let conflict = offers.values().any(|v| v.len() >= 2);
    let nothing = offers.is_empty();
    let tracks: Vec<String> = s_imports.iter().map(|s| track_key(s)).collect();
    let two_on_track = tracks.iter().any(|t| tracks.iter().filter(|x| *x == t).count() >= 2);
    let idle: Vec<usize> = (0..plug_idx.len()).filter(|pi| !offers.values().any(|v| v.iter().any(|(p, _)| p == pi))).collect();
    let mut o = Outcome::pass()
        .nontrivial(semver_fallback || incompatible_same_name || conflict || (!idle.is_empty() && !nothing))
        .rendered(json!({"socket": socket.wit, "plugs": plug_idx.iter().map(|i| comps[*i].wit.clone()).collect::<Vec<_>>(), "expected_offers": offers}));
    if semver_fallback {
        o = o.label("semver-fallback");
    }
    if incompatible_same_name {
        o = o.label("incompatible-same-name-offer");
    }
    if conflict {
        o = o.label("conflict");
    }
    if !idle.is_empty() && !nothing {
        o = o.label("idle-plug");
    }
    if nothing {
        o = o.label("nothing-to-plug");
    }
    if two_on_track {
        o = o.label("socket-two-on-track");
        if all_pairs.iter().any(|(s, _, e)| s == e && tracks.iter().filter(|t| **t == track_key(s)).count() >= 2) {
            o = o.label("two-on-track-with-exact-offer");
        }
    }
    // ---- wac
    let mut g = CompositionGraph::new();
    let mut ids = vec![];
    for (k, comp) in comps.iter().enumerate() {
        let pkg = match guarded(|| Package::from_bytes(&comp.name, comp.version.as_ref(), comp.bytes.clone(), g.types_mut())) {
            Ok(Ok(p)) => p,
            _ => return o.with_verdict(Verdict::Foreign("decode failed (C08's obligation)".into())),
        };
        let _ = k;
        ids.push(g.register_package(pkg).unwrap());
    }
    let r = match guarded(|| plug(&mut g, plug_idx.iter().map(|i| ids[*i]).collect(), ids[si])) {
        Ok(r) => r,
        Err(p) => return o.with_verdict(Verdict::Fail { sig: format!("C10/panic:{}", panic_sig(&p)), msg: format!("plug panicked: {p}") }),
    };
    let got = match &r {
        Ok(()) => "Ok",
        Err(PlugError::NoPlugHappened) => "NoPlugHappened",
        Err(PlugError::GraphError { .. }) => "GraphError",
    };
    let want = if conflict { "GraphError" } else if nothing { "NoPlugHappened" } else { "Ok" };
    // T4: with two socket imports on one track only the exact-name offers are prescribed by both readings
    let t4 = |got_args: Option<&BTreeMap<String, (String, String)>>| -> Result<(), String> {
        let required: BTreeMap<&String, Vec<(usize, &String)>> = all_pairs.iter().filter(|(s, _, e)| s == e).fold(BTreeMap::new(), |mut m, (s, p, e)| {
            m.entry(s).or_insert_with(Vec::new).push((*p, e));
            m
        });
        let exact_conflict = required.values().any(|v| v.len() >= 2);
        match (got, got_args) {
            ("GraphError", _) => {
                let mut per: BTreeMap<&String, usize> = BTreeMap::new();
                for (s, _, _) in &all_pairs {
                    *per.entry(s).or_default() += 1;
                }
                if per.values().any(|n| *n >= 2) { Ok(()) } else { Err("GraphError although no socket import has two compatible offers under any reading".into()) }
            }
            _ if exact_conflict => Err(format!("two plugs offer a compatible item under the exact name of one socket import, yet plug returned {got}")),
            ("NoPlugHappened", _) => if required.is_empty() { Ok(()) } else { Err(format!("NoPlugHappened although exact-name compatible offers exist: {required:?}")) },
            (_, Some(args)) => {
                for (s, v) in &required {
                    let w = (comps[plug_idx[v[0].0]].name.clone(), v[0].1.clone());
                    if args.get(*s) != Some(&w) {
                        return Err(format!("socket import `{s}` has the exact-name compatible offer {w:?} but is supplied by {:?}", args.get(*s)));
                    }
                }
                for (s, (pk, e)) in args {
                    if !all_pairs.iter().any(|(s2, p, e2)| s2 == s && e2 == e && &comps[plug_idx[*p]].name == pk) {
                        return Err(format!("socket import `{s}` is supplied by {pk}.{e}, which is not a compatible offer for it under any reading"));
                    }
                }
                Ok(())
            }
            _ => Ok(()),
        }
    };
    if got != want {
        if two_on_track {
            return match t4(None) {
                Ok(()) if got != "Ok" => o.with_verdict(Verdict::Tolerated("T4")),
                Ok(()) => {
                    let sock_inst = g.node_ids().find(|n| matches!(g[*n].kind(), NodeKind::Instantiation(_)) && g[*n].package() == Some(ids[si])).unwrap();
                    let mut got_args: BTreeMap<String, (String, String)> = BTreeMap::new();
                    for (a, src) in g.get_instantiation_arguments(sock_inst) {
                        let (inst, e) = g.get_alias_source(src).map(|(n, e)| (n, e.to_string())).unwrap_or((src, "<not an alias>".into()));
                        let pk = g[inst].package().map(|p| g[p].name().to_string()).unwrap_or_default();
                        got_args.insert(a.to_string(), (pk, e));
                    }
                    match t4(Some(&got_args)) {
                        Ok(()) => o.with_verdict(Verdict::Tolerated("T4")),
                        Err(m) => o.with_verdict(Verdict::Fail { sig: "C10/two-on-track:supplier".into(), msg: format!("{m}; all compatible pairs: {all_pairs:?}") }),
                    }
                }
                Err(m) => o.with_verdict(Verdict::Fail { sig: format!("C10/two-on-track:outcome:{got}"), msg: format!("{m}; all compatible pairs: {all_pairs:?}") }),
            };
        }
        return o.with_verdict(Verdict::Fail {
            sig: format!("C10/outcome:{got}-expected-{want}"),
            msg: format!("plug returned {got}{}; the reference algorithm gives {want}. offers per socket import: {offers:?}", r.as_ref().err().map(|e| format!(" ({e:#?})")).unwrap_or_default()),
        });
    }
    let mut comparisons = 1;
    if r.is_ok() {
        // arguments of the socket instantiation
        let sock_inst = g.node_ids().find(|n| matches!(g[*n].kind(), NodeKind::Instantiation(_)) && g[*n].package() == Some(ids[si])).unwrap();
        let mut got_args: BTreeMap<String, (String, String)> = BTreeMap::new();
        for (a, src) in g.get_instantiation_arguments(sock_inst) {
            let (inst, e) = g.get_alias_source(src).map(|(n, e)| (n, e.to_string())).unwrap_or((src, "<not an alias>".into()));
            let pk = g[inst].package().map(|p| g[p].name().to_string()).unwrap_or_default();
            got_args.insert(a.to_string(), (pk, e));
        }
        let want_args: BTreeMap<String, (String, String)> = offers.iter().map(|(s, v)| (s.clone(), (comps[plug_idx[v[0].0]].name.clone(), v[0].1.clone()))).collect();
        comparisons += want_args.len() as u64;
        if got_args != want_args {
            if two_on_track {
                return match t4(Some(&got_args)) {
                    Ok(()) => o.with_verdict(Verdict::Tolerated("T4")),
                    Err(m) => o.with_verdict(Verdict::Fail { sig: "C10/two-on-track:supplier".into(), msg: format!("{m}; all compatible pairs: {all_pairs:?}") }),
                };
            }
            return o.with_verdict(Verdict::Fail { sig: "C10/supplier".into(), msg: format!("socket arguments {got_args:?}; reference predicts {want_args:?}") });
        }
        // a plug contributing nothing is not instantiated
        for pi in &idle {
            comparisons += 1;
            if g.node_ids().any(|n| matches!(g[n].kind(), NodeKind::Instantiation(_)) && g[n].package() == Some(ids[plug_idx[*pi]])) {
                return o.with_verdict(Verdict::Fail { sig: "C10/idle-plug-instantiated".into(), msg: format!("plug {} supplies nothing but was instantiated", comps[plug_idx[*pi]].name) });
            }
        }
        // encode: valid; remaining imports, re-exports, embedded copies
        let bytes = match guarded(|| g.encode(EncodeOptions { define_components: true, validate: false, processor: None })) {
            Ok(Ok(b)) => b,
            Ok(Err(e)) => {
                // Leftover imports of the socket and of the instantiated plugs are merged per semver track by the
                // encoder (C03/C09); a documented merge refusal there is not plug's doing.
                let mut left: Vec<String> = s_imports.iter().filter(|s| !offers.contains_key(*s)).map(|s| track_key(s)).collect();
                for (pi, i) in plug_idx.iter().enumerate() {
                    if !idle.contains(&pi) {
                        left.extend(names_of(&comps[*i].bytes).map(|x| x.0).unwrap_or_default().iter().map(|s| track_key(s)));
                    }
                }
                let dup = left.iter().any(|t| left.iter().filter(|x| *x == t).count() >= 2);
                let msg = format!("{e:#}");
                if dup && (msg.contains("failed to merge the type definition for implicit import") || msg.contains("conflicting types")) {
                    return o.label("leftover-imports-conflict").comparisons(comparisons);
                }
                return o.with_verdict(Verdict::Fail { sig: format!("C10/plugged-graph-does-not-encode:{}", crate::props::c01::msg_class(&msg)), msg: format!("a successful plug does not encode: {msg}") });
            }
            Err(p) => return o.with_verdict(Verdict::Foreign(format!("encode panicked (C01's obligation): {p}"))),
        };
        if let Err(e) = validate(&bytes) {
            return o.with_verdict(Verdict::Fail { sig: format!("C10/plugged-output-invalid:{}", crate::props::c01::msg_class(&e)), msg: format!("a successful plug encodes to an invalid component: {e}") });
        }
        let w = match wire::decode(&bytes) {
            Ok(w) => w,
            Err(e) => return o.with_verdict(Verdict::GenInvalid(e)),
        };
        let out_imports: BTreeSet<String> = w.imports.iter().map(|i| track_key(&i.name)).collect();
        for s in &s_imports {
            comparisons += 1;
            if !offers.contains_key(s) && !out_imports.contains(&track_key(s)) {
                return o.with_verdict(Verdict::Fail { sig: "C10/unsupplied-import-not-imported".into(), msg: format!("socket import `{s}` is not supplied by any plug but the result does not import it; result imports {:?}", w.imports.iter().map(|i| i.name.clone()).collect::<Vec<_>>()) });
            }
        }
        let out_exports: Vec<String> = w.exports.iter().map(|e| e.0.clone()).collect();
        comparisons += 1;
        if out_exports != s_exports {
            return o.with_verdict(Verdict::Fail { sig: "C10/socket-exports-not-reexported".into(), msg: format!("result exports {out_exports:?}; socket exports {s_exports:?}") });
        }
        for (name, kind, idx) in &w.exports {
            // each export must be an alias of the socket instance's export of the same name
            let (_, origin) = w.resolve(*kind, *idx);
            let ok = match origin {
                Some(Origin::Alias { instance, name: n }) => {
                    n == name
                        && match w.resolve(Kind::Instance, *instance).1 {
                            Some(Origin::Instantiate { component, .. }) => matches!(w.resolve(Kind::Component, *component).1, Some(Origin::Component { bytes }) if bytes == &socket.bytes),
                            _ => false,
                        }
                }
                _ => false,
            };
            comparisons += 1;
            if !ok {
                return o.with_verdict(Verdict::Fail { sig: "C10/export-not-from-socket".into(), msg: format!("export `{name}` is not the socket instance's export of that name: {origin:?}") });
            }
        }
        let embedded: Vec<&Vec<u8>> = w.embedded_components().into_iter().map(|(_, b)| b).collect();
        for pi in &idle {
            comparisons += 1;
            let b = &comps[plug_idx[*pi]].bytes;
            let also_used = plug_idx.iter().enumerate().any(|(k, i)| !idle.contains(&k) && &comps[*i].bytes == b) || &socket.bytes == b;
            if !also_used && embedded.iter().any(|e| *e == b) {
                return o.with_verdict(Verdict::Fail { sig: "C10/idle-plug-embedded".into(), msg: format!("plug {} supplies nothing but is embedded in the result", comps[plug_idx[*pi]].name) });
            }
        }
        o = o.label("plugged-ok");
    }
    o.comparisons(comparisons)
}

/// The socket and the ordered plugs of a case as built components (used by C19).
pub fn materialise(c: &Case) -> Result<(BuiltComp, Vec<BuiltComp>), String> {
    let mut lib = build_lib(&c.lib);
    if lib.comps.len() < 2 {
        return Err("too few components".into());
    }
    let si = (c.socket as usize * lib.comps.len()) >> 16;
    let rest: Vec<usize> = (0..lib.comps.len()).filter(|i| *i != si).collect();
    let mut plug_idx: Vec<usize> = vec![];
    for p in &c.plugs {
        let i = rest[(*p as usize * rest.len()) >> 16];
        if !plug_idx.contains(&i) {
            plug_idx.push(i);
        }
    }
    if plug_idx.is_empty() {
        plug_idx.push(rest[0]);
    }
    let socket_sigs: Vec<(String, FuncSig)> = lib.comps[si].items.iter().filter_map(|i| if let WorldItem::ImportFunc(n, s) = i { Some((n.clone(), s.clone())) } else { None }).collect();
    for (k, i) in plug_idx.iter().enumerate() {
        let mirror = c.mirror.get(k).copied().unwrap_or(false);
        for it in lib.comps[*i].items.iter_mut() {
            if let WorldItem::ExportFunc(n, sig) = it {
                *n = n.replacen('g', "f", 1);
                if mirror {
                    if let Some((_, s)) = socket_sigs.iter().find(|(m, _)| m == n) {
                        *sig = s.clone();
                    }
                }
            }
        }
    }
    let comps = build_library_with(&lib, (c.lib.versions / 8) % 2 == 0)?;
    Ok((comps[si].clone(), plug_idx.iter().map(|i| comps[*i].clone()).collect()))
}

pub fn case_strategy() -> impl Strategy<Value = Case> {
    (lib2(), any::<u16>(), proptest::collection::vec(any::<u16>(), 1..5), proptest::collection::vec(any::<bool>(), 4)).prop_map(|(lib, socket, plugs, mirror)| Case { lib, socket, plugs, mirror })
}

fn lib2() -> impl Strategy<Value = LibSpec> {
    (proptest::collection::vec(ifacespec_strategy(6), 1..4), any::<u8>(), proptest::collection::vec(compspec_strategy(), 2..6)).prop_map(|(ifaces, versions, comps)| LibSpec { api: ApiSpec { ifaces }, versions, comps })
}

pub fn run(tier: Tier, seed: u64, replay: Option<&std::path::Path>) -> i32 {
    let mut run = Run::new(
        "C10",
        tier,
        seed,
        "exploration",
        "a socket and an ordered list of 1-4 plugs drawn from the components of a generated library (interfaces of one API package at several versions, exported by some components and imported by others; later versions add functions, so a lower-version offer is type-incompatible with a higher-version import and vice versa compatible; bare functions that agree or differ; plugs with nothing to offer). Reference algorithm from the statement: every plug export goes to the socket import of the same name, else the first semver-compatible one; it is an offer when export <: import — decided for bare functions by the validator's own subtype relation (both components nested in one outer component), for API interfaces by the generator's model (version k = version k-1 plus one function, so compatible iff the export's version index >= the import's), cross-checked against the validator's relation wherever no abstract resource is involved (a disagreement between the two references counts as generator_invalid); two offers on one import => GraphError; none => NoPlugHappened; else Ok with exactly those suppliers. On Ok: socket arguments = predicted suppliers, idle plugs neither instantiated nor embedded, result validates, every unsupplied socket import is imported (on its track), exports are exactly the socket's, each an alias of the socket instance. Non-trivial = a semver fallback, an incompatible same-named offer, a conflict, or an idle plug next to a useful one. Distinct by JSON hash.",
    );
    run.assume("T4: a socket importing two names on one semver track — either reading of 'same name, failing that a compatible name' is accepted");
    if let Some(p) = replay {
        run.replay_case::<Case, _>(p, check);
        return run.finish();
    }
    let n = tier.pick(32_000, 480_000);
    run.explore(1, 16, n / 16, || (lib2(), any::<u16>(), proptest::collection::vec(any::<u16>(), 1..5), proptest::collection::vec(any::<bool>(), 4)).prop_map(|(lib, socket, plugs, mirror)| Case { lib, socket, plugs, mirror }), check);
    for l in ["plugged-ok", "semver-fallback", "incompatible-same-name-offer", "conflict", "idle-plug", "nothing-to-plug", "socket-two-on-track", "two-on-track-with-exact-offer"] {
        run.floor(l, 10);
    }
    run.finish()
}
