//! C06 — the graph API stays consistent over every operation history.
//!
//! O-graph: a reference model of `CompositionGraph` written from the doc comments of each public
//! method (DESIGN.md Appendix A).  After every step: the call's result equals the model's, every
//! query agrees with the model, the guarded invariant hook reports nothing, and periodically the
//! graph encodes (or returns an error the model predicts) to a component the reference validator
//! accepts, and a clone behaves identically.

use crate::engine::*;
use proptest::prelude::*;
use serde::{Deserialize, Serialize};
use serde_json::json;
use std::collections::{BTreeMap, BTreeSet};
use wac_graph::{
    AliasError, CompositionGraph, DefineTypeError, EncodeError, EncodeOptions, ExportError, ImportError, InstantiationArgumentError, NodeId, NodeKind, PackageId, RegisterPackageError, UnexportError,
};
use wac_types::{DefinedType, FuncType, Interface, ItemKind, Package, PrimitiveType, Type, ValueType};

// ---------------------------------------------------------------------------------------------
// the tiny universe

/// Model of an item kind.
#[derive(Clone, Debug, PartialEq, Eq, PartialOrd, Ord)]
pub enum MK {
    /// func() = 0, func(x: u8) = 1
    Func(u8),
    Instance(BTreeMap<String, MK>),
    /// defined type t0..t2
    Type(usize),
}

fn inst(items: &[(&str, MK)]) -> MK {
    MK::Instance(items.iter().map(|(n, k)| (n.to_string(), k.clone())).collect())
}

fn mk_subtype(a: &MK, b: &MK) -> bool {
    match (a, b) {
        (MK::Func(x), MK::Func(y)) => x == y,
        (MK::Type(x), MK::Type(y)) => x == y,
        (MK::Instance(x), MK::Instance(y)) => y.iter().all(|(n, k)| x.get(n).map(|k2| mk_subtype(k2, k)).unwrap_or(false)),
        _ => false,
    }
}

pub struct PkgDef {
    pub name: &'static str,
    pub wat: &'static str,
    pub imports: Vec<(&'static str, MK)>,
    pub exports: Vec<(&'static str, MK)>,
}

pub fn universe_packages() -> Vec<PkgDef> {
    let i_f0 = inst(&[("f", MK::Func(0))]);
    let i_f1 = inst(&[("f", MK::Func(1))]);
    vec![
        PkgDef {
            name: "test:a",
            wat: r#"(component (import "f" (func)) (import "i" (instance (export "f" (func)))) (export "g" (func 0)) (export "e" (instance 0)))"#,
            imports: vec![("f", MK::Func(0)), ("i", i_f0.clone())],
            exports: vec![("g", MK::Func(0)), ("e", i_f0.clone())],
        },
        PkgDef {
            name: "test:b",
            wat: r#"(component (import "f" (func)) (import "h" (func (param "x" u8))) (import "g" (func)) (export "k" (func 1)) (export "g" (func 2)))"#,
            imports: vec![("f", MK::Func(0)), ("h", MK::Func(1)), ("g", MK::Func(0))],
            exports: vec![("k", MK::Func(1)), ("g", MK::Func(0))],
        },
        PkgDef {
            name: "test:c",
            wat: r#"(component (import "i" (instance (export "f" (func (param "x" u8))))) (export "c" (instance 0)))"#,
            imports: vec![("i", i_f1.clone())],
            exports: vec![("c", i_f1)],
        },
    ]
}

const IMPORT_NAMES: &[&str] = &["f", "h", "i", "x", "g", "Bad Name", "a:b/c@1.0.0"];
const EXPORT_NAMES: &[&str] = &["g", "o1", "o2", "n0", "not valid!", "unlocked-dep=<a:b>"];
const TYPE_NAMES: &[&str] = &["n0", "n1", "o1", "Invalid_Name"];
const ARG_NAMES: &[&str] = &["f", "h", "i", "g", "nope"];
const ALIAS_NAMES: &[&str] = &["g", "e", "f", "k", "c", "zzz"];
/// kinds an import node can have
fn import_kinds() -> Vec<MK> {
    vec![MK::Func(0), MK::Func(1), inst(&[("f", MK::Func(0))]), inst(&[("f", MK::Func(0)), ("z", MK::Func(1))]), inst(&[("f", MK::Func(1))]), MK::Type(0)]
}

fn valid_extern_name(n: &str) -> bool {
    // the universe's names: kebab words, interface paths, the dependency form; the two ill-formed ones
    !(n == "Bad Name" || n == "not valid!" || n == "Invalid_Name")
}

fn export_name_allowed(n: &str) -> bool {
    valid_extern_name(n) && !n.starts_with("unlocked-dep=")
}

// ---------------------------------------------------------------------------------------------
// operations

#[derive(Clone, Debug, Serialize, Deserialize, PartialEq)]
pub enum Op {
    Register(u8),
    Unregister(u8),
    DefineType(u8, u8),
    Import(u8, u8),
    Instantiate(u8),
    Alias(u16, u8),
    SetArg(u16, u8, u16),
    UnsetArg(u16, u8, u16),
    Export(u16, u8),
    Unexport(u16),
    SetName(u16, u8),
    Remove(u16),
    Encode(bool),
    CloneSwap,
}

pub fn op_strategy() -> impl Strategy<Value = Op> {
    prop_oneof![
        3 => (0u8..3).prop_map(Op::Register),
        1 => (0u8..3).prop_map(Op::Unregister),
        3 => (0u8..TYPE_NAMES.len() as u8, 0u8..3).prop_map(|(n, t)| Op::DefineType(n, t)),
        4 => (0u8..IMPORT_NAMES.len() as u8, 0u8..6).prop_map(|(n, k)| Op::Import(n, k)),
        5 => (0u8..3).prop_map(Op::Instantiate),
        4 => (any::<u16>(), 0u8..ALIAS_NAMES.len() as u8).prop_map(|(n, e)| Op::Alias(n, e)),
        8 => (any::<u16>(), 0u8..ARG_NAMES.len() as u8, any::<u16>()).prop_map(|(i, a, s)| Op::SetArg(i, a, s)),
        2 => (any::<u16>(), 0u8..ARG_NAMES.len() as u8, any::<u16>()).prop_map(|(i, a, s)| Op::UnsetArg(i, a, s)),
        4 => (any::<u16>(), 0u8..EXPORT_NAMES.len() as u8).prop_map(|(n, e)| Op::Export(n, e)),
        2 => any::<u16>().prop_map(Op::Unexport),
        1 => (any::<u16>(), 0u8..3).prop_map(|(n, s)| Op::SetName(n, s)),
        4 => any::<u16>().prop_map(Op::Remove),
        2 => any::<bool>().prop_map(Op::Encode),
        1 => Just(Op::CloneSwap),
    ]
}

// ---------------------------------------------------------------------------------------------
// the reference model

#[derive(Clone, Debug, PartialEq)]
enum MNodeKind {
    Def(usize),
    Import(String),
    Inst(usize),
    Alias { src: usize, export: String },
}

#[derive(Clone, Debug)]
struct MNode {
    kind: MNodeKind,
    item: MK,
    name: Option<String>,
    /// export names in the order they were given
    exports: Vec<String>,
    /// package slot the node belongs to (instantiations and aliases derived from them)
    pkg: Option<usize>,
}

#[derive(Clone, Default)]
struct Model {
    /// model node key -> node; keys are never reused
    nodes: BTreeMap<usize, MNode>,
    next: usize,
    /// (inst key, arg name) -> source key
    args: BTreeMap<(usize, String), usize>,
    registered: BTreeSet<usize>,
}

/// type dependency among t0,t1,t2: t1 mentions t0; t2 mentions t0 and t1
fn type_deps(t: usize) -> &'static [usize] {
    match t {
        1 => &[0],
        2 => &[0, 1],
        _ => &[],
    }
}

impl Model {
    fn export_owner(&self, name: &str) -> Option<usize> {
        self.nodes.iter().find(|(_, n)| n.exports.iter().any(|e| e == name)).map(|(k, _)| *k)
    }
    fn import_owner(&self, name: &str) -> Option<usize> {
        self.nodes.iter().find(|(_, n)| matches!(&n.kind, MNodeKind::Import(x) if x == name)).map(|(k, _)| *k)
    }
    fn def_of(&self, t: usize) -> Option<usize> {
        self.nodes.iter().find(|(_, n)| n.kind == MNodeKind::Def(t)).map(|(k, _)| *k)
    }
    /// everything `remove_node(k)` removes: k, aliases taken from it, definitions depending on it — transitively, once each
    fn removal_set(&self, k: usize) -> BTreeSet<usize> {
        let mut out = BTreeSet::new();
        let mut stack = vec![k];
        while let Some(x) = stack.pop() {
            if !out.insert(x) {
                continue;
            }
            for (k2, n2) in &self.nodes {
                match &n2.kind {
                    MNodeKind::Alias { src, .. } if *src == x => stack.push(*k2),
                    MNodeKind::Def(t2) => {
                        if let MNodeKind::Def(t) = self.nodes[&x].kind {
                            if type_deps(*t2).contains(&t) {
                                stack.push(*k2);
                            }
                        }
                    }
                    _ => {}
                }
            }
        }
        out
    }
    fn remove(&mut self, set: &BTreeSet<usize>) {
        for k in set {
            self.nodes.remove(k);
        }
        self.args.retain(|(i, _), s| !set.contains(i) && !set.contains(s));
    }
}

// ---------------------------------------------------------------------------------------------
// the system under test, wrapped

struct Sut {
    g: CompositionGraph,
    /// slot -> live package id
    pkgs: BTreeMap<usize, PackageId>,
    /// model key <-> NodeId
    ids: BTreeMap<usize, NodeId>,
    types: [Type; 3],
    kinds: Vec<ItemKind>,
}

fn build_sut() -> Sut {
    let mut g = CompositionGraph::new();
    // t0 is an alias of a primitive (not a record): a defined type that mentions an *undefined*
    // record would have to be named before it can be exported, which the API does not check — that
    // belongs to C01, not to the bookkeeping property checked here.
    let t0 = g.types_mut().add_defined_type(DefinedType::Alias(ValueType::Primitive(PrimitiveType::U8)));
    let t1 = g.types_mut().add_defined_type(DefinedType::List(ValueType::Defined(t0)));
    let t2 = g.types_mut().add_defined_type(DefinedType::Tuple(vec![ValueType::Defined(t0), ValueType::Defined(t1)]));
    let f0 = g.types_mut().add_func_type(FuncType::default());
    let f1 = g.types_mut().add_func_type(FuncType { params: [("x".to_string(), ValueType::Primitive(PrimitiveType::U8))].into_iter().collect(), result: None, is_async: false });
    let i_f0 = g.types_mut().add_interface(Interface { id: None, uses: Default::default(), exports: [("f".to_string(), ItemKind::Func(f0))].into_iter().collect() });
    let i_f0z = g.types_mut().add_interface(Interface { id: None, uses: Default::default(), exports: [("f".to_string(), ItemKind::Func(f0)), ("z".to_string(), ItemKind::Func(f1))].into_iter().collect() });
    let i_f1 = g.types_mut().add_interface(Interface { id: None, uses: Default::default(), exports: [("f".to_string(), ItemKind::Func(f1))].into_iter().collect() });
    let types = [Type::Value(ValueType::Defined(t0)), Type::Value(ValueType::Defined(t1)), Type::Value(ValueType::Defined(t2))];
    let kinds = vec![ItemKind::Func(f0), ItemKind::Func(f1), ItemKind::Instance(i_f0), ItemKind::Instance(i_f0z), ItemKind::Instance(i_f1), ItemKind::Type(types[0])];
    Sut { g, pkgs: BTreeMap::new(), ids: BTreeMap::new(), types, kinds }
}

fn wat_bytes(slot: usize) -> Vec<u8> {
    static B: std::sync::OnceLock<Vec<Vec<u8>>> = std::sync::OnceLock::new();
    B.get_or_init(|| universe_packages().iter().map(|p| wat::parse_str(p.wat).expect("universe wat")).collect())[slot].clone()
}

type Fail = (String, String);

fn fail<T>(sig: &str, msg: String) -> Result<T, Fail> {
    Err((format!("C06/{sig}"), msg))
}

struct Exec {
    sut: Sut,
    m: Model,
    pk: Vec<PkgDef>,
    steps: u64,
    comparisons: u64,
    labels: BTreeSet<&'static str>,
    /// names/args/ids freed by a removal, to detect "touched again afterwards"
    freed: bool,
    touched_after_free: bool,
}

impl Exec {
    fn new() -> Self {
        Exec { sut: build_sut(), m: Model::default(), pk: universe_packages(), steps: 0, comparisons: 0, labels: BTreeSet::new(), freed: false, touched_after_free: false }
    }

    fn live_key(&self, raw: u16) -> Option<usize> {
        let keys: Vec<usize> = self.m.nodes.keys().copied().collect();
        if keys.is_empty() {
            None
        } else {
            Some(keys[(raw as usize * keys.len()) >> 16])
        }
    }

    fn new_node(&mut self, id: NodeId, node: MNode) -> Result<usize, Fail> {
        if self.sut.ids.values().any(|x| *x == id) {
            return fail("fresh-id-collides-with-live-node", format!("a newly created node got id {id}, which is still live"));
        }
        let k = self.m.next;
        self.m.next += 1;
        self.m.nodes.insert(k, node);
        self.sut.ids.insert(k, id);
        Ok(k)
    }

    fn forget(&mut self, set: &BTreeSet<usize>) {
        for k in set {
            self.sut.ids.remove(k);
        }
    }

    fn apply(&mut self, op: &Op) -> Result<(), Fail> {
        self.steps += 1;
        if self.freed {
            self.touched_after_free = true;
        }
        match op {
            Op::Register(slot) => {
                let slot = *slot as usize;
                let pkg = Package::from_bytes(self.pk[slot].name, None, wat_bytes(slot), self.sut.g.types_mut()).map_err(|e| ("C06/universe-package-rejected".to_string(), e.to_string()))?;
                let r = guarded(|| self.sut.g.register_package(pkg)).map_err(|p| (format!("C06/panic:register_package:{}", panic_sig(&p)), p))?;
                match (r, self.m.registered.contains(&slot)) {
                    (Ok(id), false) => {
                        self.m.registered.insert(slot);
                        self.sut.pkgs.insert(slot, id);
                    }
                    (Err(RegisterPackageError::PackageAlreadyRegistered { .. }), true) => {}
                    (r, reg) => return fail("register-result", format!("register_package({}) returned {:?}; model says already registered = {reg}", self.pk[slot].name, r.map(|_| ()))),
                }
            }
            Op::Unregister(slot) => {
                let slot = *slot as usize;
                if let Some(id) = self.sut.pkgs.get(&slot).copied() {
                    self.labels.insert("unregister-package");
                    let doomed: BTreeSet<usize> = self.m.nodes.iter().filter(|(_, n)| n.pkg == Some(slot)).map(|(k, _)| *k).collect();
                    let had_dependants = self.m.args.iter().any(|((i, _), s)| doomed.contains(s) && !doomed.contains(i)) || doomed.iter().any(|k| !self.m.nodes[k].exports.is_empty());
                    guarded(|| self.sut.g.unregister_package(id)).map_err(|p| (format!("C06/panic:unregister_package:{}", panic_sig(&p)), p))?;
                    self.m.remove(&doomed);
                    self.forget(&doomed);
                    self.m.registered.remove(&slot);
                    self.sut.pkgs.remove(&slot);
                    if had_dependants {
                        self.freed = true;
                        self.labels.insert("removal-with-dependants");
                    }
                }
            }
            Op::DefineType(n, t) => {
                let (name, t) = (TYPE_NAMES[*n as usize], *t as usize);
                let ty = self.sut.types[t];
                let r = guarded(|| self.sut.g.define_type(name, ty)).map_err(|p| (format!("C06/panic:define_type:{}", panic_sig(&p)), p))?;
                let want = if self.m.def_of(t).is_some() {
                    "TypeAlreadyDefined"
                } else if self.m.export_owner(name).is_some() {
                    "ExportConflict"
                } else if !valid_extern_name(name) {
                    "InvalidExternName"
                } else {
                    "Ok"
                };
                let got = match &r {
                    Ok(_) => "Ok",
                    Err(DefineTypeError::TypeAlreadyDefined) => "TypeAlreadyDefined",
                    Err(DefineTypeError::CannotDefineResource) => "CannotDefineResource",
                    Err(DefineTypeError::ExportConflict { .. }) => "ExportConflict",
                    Err(DefineTypeError::InvalidExternName { .. }) => "InvalidExternName",
                };
                if got != want {
                    return fail("define_type-result", format!("define_type({name:?}, t{t}) returned {got}, model expects {want}"));
                }
                if let Ok(id) = r {
                    self.new_node(id, MNode { kind: MNodeKind::Def(t), item: MK::Type(t), name: None, exports: vec![name.to_string()], pkg: None })?;
                }
            }
            Op::Import(n, k) => {
                let name = IMPORT_NAMES[*n as usize];
                let kind = self.sut.kinds[*k as usize];
                let mk = import_kinds()[*k as usize].clone();
                let r = guarded(|| self.sut.g.import(name, kind)).map_err(|p| (format!("C06/panic:import:{}", panic_sig(&p)), p))?;
                let existing = self.m.import_owner(name);
                match (&r, existing, valid_extern_name(name)) {
                    (Err(ImportError::ImportAlreadyExists { node, .. }), Some(k), _) => {
                        if self.sut.ids.get(&k) != Some(node) {
                            return fail("import-existing-node", format!("ImportAlreadyExists names node {node}, model says {:?}", self.sut.ids.get(&k)));
                        }
                    }
                    (Err(ImportError::InvalidImportName { .. }), None, false) => {}
                    (Ok(id), None, true) => {
                        self.new_node(*id, MNode { kind: MNodeKind::Import(name.to_string()), item: mk, name: None, exports: vec![], pkg: None })?;
                    }
                    _ => return fail("import-result", format!("import({name:?}) returned {:?}; model: existing={existing:?} valid={}", r.as_ref().map(|_| ()).map_err(|e| e.to_string()), valid_extern_name(name))),
                }
            }
            Op::Instantiate(slot) => {
                let slot = *slot as usize;
                if let Some(id) = self.sut.pkgs.get(&slot).copied() {
                    let node = guarded(|| self.sut.g.instantiate(id)).map_err(|p| (format!("C06/panic:instantiate:{}", panic_sig(&p)), p))?;
                    let item = MK::Instance(self.pk[slot].exports.iter().map(|(n, k)| (n.to_string(), k.clone())).collect());
                    self.new_node(node, MNode { kind: MNodeKind::Inst(slot), item, name: None, exports: vec![], pkg: Some(slot) })?;
                }
            }
            Op::Alias(n, e) => {
                let Some(k) = self.live_key(*n) else { return Ok(()) };
                let export = ALIAS_NAMES[*e as usize];
                let id = self.sut.ids[&k];
                let r = guarded(|| self.sut.g.alias_instance_export(id, export)).map_err(|p| (format!("C06/panic:alias_instance_export:{}", panic_sig(&p)), p))?;
                let src = self.m.nodes[&k].clone();
                match (&r, &src.item) {
                    (Err(AliasError::NodeIsNotAnInstance { .. }), MK::Func(_) | MK::Type(_)) => {}
                    (Err(AliasError::InstanceMissingExport { .. }), MK::Instance(x)) if !x.contains_key(export) => {}
                    (Ok(id), MK::Instance(x)) if x.contains_key(export) => {
                        let existing = self.m.nodes.iter().find(|(_, n)| n.kind == MNodeKind::Alias { src: k, export: export.to_string() }).map(|(k, _)| *k);
                        match existing {
                            Some(ek) => {
                                self.labels.insert("alias-reused");
                                if self.sut.ids[&ek] != *id {
                                    return fail("alias-not-reused", format!("alias of ({k},{export}) exists as {} but a different node {id} was returned", self.sut.ids[&ek]));
                                }
                            }
                            None => {
                                self.new_node(*id, MNode { kind: MNodeKind::Alias { src: k, export: export.to_string() }, item: x[export].clone(), name: None, exports: vec![], pkg: src.pkg })?;
                            }
                        }
                    }
                    _ => return fail("alias-result", format!("alias_instance_export(node of kind {:?}, {export:?}) returned {:?}", src.item, r.as_ref().map(|_| ()).map_err(|e| e.to_string()))),
                }
            }
            Op::SetArg(i, a, s) | Op::UnsetArg(i, a, s) => {
                let (Some(ik), Some(sk)) = (self.live_key(*i), self.live_key(*s)) else { return Ok(()) };
                // bias: make the target an instantiation when one exists
                let insts: Vec<usize> = self.m.nodes.iter().filter(|(_, n)| matches!(n.kind, MNodeKind::Inst(_))).map(|(k, _)| *k).collect();
                let ik = if !insts.is_empty() && *i % 8 != 0 { insts[(*i as usize * insts.len()) >> 16] } else { ik };
                let arg = ARG_NAMES[*a as usize];
                let (iid, sid) = (self.sut.ids[&ik], self.sut.ids[&sk]);
                let is_set = matches!(op, Op::SetArg(..));
                let r = if is_set {
                    guarded(|| self.sut.g.set_instantiation_argument(iid, arg, sid)).map_err(|p| (format!("C06/panic:set_instantiation_argument:{}", panic_sig(&p)), format!("{p} (set {arg:?} of {iid} from {sid})")))?
                } else {
                    guarded(|| self.sut.g.unset_instantiation_argument(iid, arg, sid)).map_err(|p| (format!("C06/panic:unset_instantiation_argument:{}", panic_sig(&p)), p))?
                };
                let got = match &r {
                    Ok(()) => "Ok",
                    Err(InstantiationArgumentError::NodeIsNotAnInstantiation { .. }) => "NodeIsNotAnInstantiation",
                    Err(InstantiationArgumentError::InvalidArgumentName { .. }) => "InvalidArgumentName",
                    Err(InstantiationArgumentError::ArgumentTypeMismatch { .. }) => "ArgumentTypeMismatch",
                    Err(InstantiationArgumentError::ArgumentAlreadyPassed { .. }) => "ArgumentAlreadyPassed",
                };
                let target = self.m.nodes[&ik].clone();
                let want = match target.kind {
                    MNodeKind::Inst(slot) => match self.pk[slot].imports.iter().find(|(n, _)| *n == arg) {
                        None => "InvalidArgumentName",
                        Some((_, expected)) => {
                            if is_set {
                                match self.m.args.get(&(ik, arg.to_string())) {
                                    Some(cur) if *cur == sk => "Ok",
                                    Some(_) => "ArgumentAlreadyPassed",
                                    None => {
                                        if mk_subtype(&self.m.nodes[&sk].item, expected) {
                                            self.m.args.insert((ik, arg.to_string()), sk);
                                            self.labels.insert("argument-set");
                                            "Ok"
                                        } else {
                                            "ArgumentTypeMismatch"
                                        }
                                    }
                                }
                            } else {
                                if self.m.args.get(&(ik, arg.to_string())) == Some(&sk) {
                                    self.m.args.remove(&(ik, arg.to_string()));
                                    self.labels.insert("argument-unset");
                                }
                                "Ok"
                            }
                        }
                    },
                    _ => "NodeIsNotAnInstantiation",
                };
                if got != want {
                    return fail(
                        if is_set { "set_argument-result" } else { "unset_argument-result" },
                        format!("{}_instantiation_argument({iid}, {arg:?}, {sid}) returned {got}, model expects {want} (target {:?}, source kind {:?})", if is_set { "set" } else { "unset" }, target.kind, self.m.nodes[&sk].item),
                    );
                }
            }
            Op::Export(n, e) => {
                let Some(k) = self.live_key(*n) else { return Ok(()) };
                let name = EXPORT_NAMES[*e as usize];
                let id = self.sut.ids[&k];
                let r = guarded(|| self.sut.g.export(id, name)).map_err(|p| (format!("C06/panic:export:{}", panic_sig(&p)), p))?;
                let owner = self.m.export_owner(name);
                match (&r, owner, export_name_allowed(name)) {
                    (Err(ExportError::ExportAlreadyExists { node, .. }), Some(o), _) => {
                        if self.sut.ids.get(&o) != Some(node) {
                            return fail("export-existing-node", format!("ExportAlreadyExists names node {node}, model says {:?}", self.sut.ids.get(&o)));
                        }
                    }
                    (Err(ExportError::InvalidExportName { .. }), None, false) => {}
                    (Ok(()), None, true) => {
                        let node = self.m.nodes.get_mut(&k).unwrap();
                        if !node.exports.is_empty() {
                            self.labels.insert("exported-under-two-names");
                        }
                        node.exports.push(name.to_string());
                    }
                    _ => return fail("export-result", format!("export({id}, {name:?}) returned {:?}; model owner={owner:?} allowed={}", r.as_ref().map_err(|e| e.to_string()), export_name_allowed(name))),
                }
            }
            Op::Unexport(n) => {
                let Some(k) = self.live_key(*n) else { return Ok(()) };
                let id = self.sut.ids[&k];
                let r = guarded(|| self.sut.g.unexport(id)).map_err(|p| (format!("C06/panic:unexport:{}", panic_sig(&p)), p))?;
                let is_def = matches!(self.m.nodes[&k].kind, MNodeKind::Def(_));
                match (&r, is_def) {
                    (Err(UnexportError::MustExportDefinition), true) => {}
                    (Ok(()), false) => {
                        let node = self.m.nodes.get_mut(&k).unwrap();
                        if !node.exports.is_empty() {
                            self.freed = true;
                        }
                        node.exports.clear();
                    }
                    _ => return fail("unexport-result", format!("unexport({id}) returned {:?}, definition={is_def}", r.as_ref().map_err(|e| e.to_string()))),
                }
            }
            Op::SetName(n, s) => {
                let Some(k) = self.live_key(*n) else { return Ok(()) };
                let name = ["alpha", "beta", "gamma"][*s as usize];
                let id = self.sut.ids[&k];
                guarded(|| self.sut.g.set_node_name(id, name)).map_err(|p| (format!("C06/panic:set_node_name:{}", panic_sig(&p)), p))?;
                self.m.nodes.get_mut(&k).unwrap().name = Some(name.to_string());
            }
            Op::Remove(n) => {
                let Some(k) = self.live_key(*n) else { return Ok(()) };
                let id = self.sut.ids[&k];
                let set = self.m.removal_set(k);
                let had = set.iter().any(|x| !self.m.nodes[x].exports.is_empty() || matches!(self.m.nodes[x].kind, MNodeKind::Import(_)))
                    || self.m.args.iter().any(|((i, _), s)| set.contains(s) && !set.contains(i))
                    || set.len() > 1;
                if set.len() > 2 {
                    self.labels.insert("cascading-removal");
                }
                guarded(|| self.sut.g.remove_node(id)).map_err(|p| (format!("C06/panic:remove_node:{}", panic_sig(&p)), format!("{p} (remove_node({id}), model removal set has {} nodes)", set.len())))?;
                self.m.remove(&set);
                self.forget(&set);
                self.labels.insert("remove-node");
                if had {
                    self.freed = true;
                    self.labels.insert("removal-with-dependants");
                }
            }
            Op::Encode(define) => {
                self.check_encode(*define)?;
            }
            Op::CloneSwap => {
                self.labels.insert("clone");
                let c = guarded(|| self.sut.g.clone()).map_err(|p| (format!("C06/panic:clone:{}", panic_sig(&p)), p))?;
                self.sut.g = c;
            }
        }
        self.check_queries()
    }

    fn check_queries(&mut self) -> Result<(), Fail> {
        let g = &self.sut.g;
        // node set
        let live: BTreeSet<NodeId> = guarded(|| g.node_ids().collect()).map_err(|p| (format!("C06/panic:node_ids:{}", panic_sig(&p)), p))?;
        let want: BTreeSet<NodeId> = self.sut.ids.values().copied().collect();
        self.comparisons += 1;
        if live != want {
            return fail("node-set", format!("node_ids() = {:?}, model has {:?}", live.iter().map(|n| n.to_string()).collect::<Vec<_>>(), want.iter().map(|n| n.to_string()).collect::<Vec<_>>()));
        }
        let inv = guarded(|| g.verif_invariants()).map_err(|p| (format!("C06/panic:verif_invariants:{}", panic_sig(&p)), p))?;
        self.comparisons += 1;
        if let Some(first) = inv.first() {
            let class: String = first.chars().filter(|c| !c.is_ascii_digit()).collect::<String>().split('`').next().unwrap_or("").trim().to_string();
            return fail(&format!("invariant:{}", class.replace(' ', "-").chars().take(60).collect::<String>()), format!("internal invariants violated: {inv:?}"));
        }
        for (k, mn) in &self.m.nodes {
            let id = self.sut.ids[k];
            let r = guarded(|| {
                let n = &g[id];
                (format!("{:?}", std::mem::discriminant(n.kind())), n.import_name().map(|s| s.to_string()), n.name().map(|s| s.to_string()), n.export_name().map(|s| s.to_string()), n.package(), n.item_kind())
            })
            .map_err(|p| (format!("C06/panic:node-accessors:{}", panic_sig(&p)), p))?;
            self.comparisons += 4;
            let (_, import_name, name, export_name, package, item_kind) = r;
            let kind_ok = match (&mn.kind, g[id].kind()) {
                (MNodeKind::Def(_), NodeKind::Definition) => true,
                (MNodeKind::Import(a), NodeKind::Import(b)) => a == b,
                (MNodeKind::Inst(_), NodeKind::Instantiation(_)) => true,
                (MNodeKind::Alias { .. }, NodeKind::Alias) => true,
                _ => false,
            };
            if !kind_ok {
                return fail("node-kind", format!("node {id}: kind {:?}, model {:?}", g[id].kind(), mn.kind));
            }
            let want_import = if let MNodeKind::Import(n) = &mn.kind { Some(n.clone()) } else { None };
            if import_name != want_import || g.get_import_name(id).map(|s| s.to_string()) != want_import {
                return fail("node-import-name", format!("node {id}: import name {import_name:?}, model {want_import:?}"));
            }
            if name != mn.name {
                return fail("node-name", format!("node {id}: name {name:?}, model {:?}", mn.name));
            }
            match (&export_name, mn.exports.is_empty()) {
                (None, true) => {}
                (Some(e), false) if mn.exports.contains(e) => {}
                _ => return fail("node-export-name", format!("node {id}: export_name() = {export_name:?}, model export names {:?}", mn.exports)),
            }
            let want_pkg = mn.pkg.map(|s| self.sut.pkgs[&s]);
            if package != want_pkg {
                return fail("node-package", format!("node {id}: package {package:?}, model {want_pkg:?}"));
            }
            let class = match item_kind {
                ItemKind::Func(_) => "func",
                ItemKind::Instance(_) => "instance",
                ItemKind::Type(_) => "type",
                _ => "other",
            };
            let want_class = match mn.item {
                MK::Func(_) => "func",
                MK::Instance(_) => "instance",
                MK::Type(_) => "type",
            };
            if class != want_class {
                return fail("node-item-kind", format!("node {id}: item kind class {class}, model {want_class}"));
            }
            match &mn.kind {
                MNodeKind::Alias { src, export } => {
                    let got = guarded(|| g.get_alias_source(id).map(|(n, e)| (n, e.to_string()))).map_err(|p| (format!("C06/panic:get_alias_source:{}", panic_sig(&p)), p))?;
                    self.comparisons += 1;
                    if got != Some((self.sut.ids[src], export.clone())) {
                        return fail("alias-source", format!("get_alias_source({id}) = {got:?}, model ({}, {export})", self.sut.ids[src]));
                    }
                }
                _ => {
                    let got = guarded(|| g.get_alias_source(id).map(|(n, e)| (n, e.to_string()))).map_err(|p| (format!("C06/panic:get_alias_source:{}", panic_sig(&p)), p))?;
                    if got.is_some() {
                        return fail("alias-source", format!("get_alias_source({id}) = {got:?} for a non-alias node"));
                    }
                }
            }
            let got: BTreeSet<(String, NodeId)> = guarded(|| g.get_instantiation_arguments(id).map(|(n, s)| (n.to_string(), s)).collect()).map_err(|p| (format!("C06/panic:get_instantiation_arguments:{}", panic_sig(&p)), p))?;
            let want: BTreeSet<(String, NodeId)> = self.m.args.iter().filter(|((i, _), _)| i == k).map(|((_, a), s)| (a.clone(), self.sut.ids[s])).collect();
            self.comparisons += 1;
            if got != want {
                return fail("instantiation-arguments", format!("get_instantiation_arguments({id}) = {got:?}, model {want:?}"));
            }
        }
        for name in EXPORT_NAMES.iter().chain(TYPE_NAMES.iter()) {
            let got = guarded(|| g.get_export(name)).map_err(|p| (format!("C06/panic:get_export:{}", panic_sig(&p)), p))?;
            let want = self.m.export_owner(name).map(|k| self.sut.ids[&k]);
            self.comparisons += 1;
            if got != want {
                return fail("get_export", format!("get_export({name:?}) = {got:?}, model {want:?}"));
            }
        }
        // imports(): unsatisfied arguments of every instantiation in node-id order, then explicit imports in node-id order
        let got: Vec<(String, Option<NodeId>)> = guarded(|| g.imports().map(|(n, _, id)| (n.to_string(), id)).collect()).map_err(|p| (format!("C06/panic:imports:{}", panic_sig(&p)), p))?;
        let mut by_id: Vec<(NodeId, usize)> = self.sut.ids.iter().map(|(k, id)| (*id, *k)).collect();
        by_id.sort();
        let mut want: Vec<(String, Option<NodeId>)> = vec![];
        for (_, k) in &by_id {
            if let MNodeKind::Inst(slot) = self.m.nodes[k].kind {
                for (n, _) in &self.pk[slot].imports {
                    if !self.m.args.contains_key(&(*k, n.to_string())) {
                        want.push((n.to_string(), None));
                    }
                }
            }
        }
        for (id, k) in &by_id {
            if let MNodeKind::Import(n) = &self.m.nodes[k].kind {
                want.push((n.clone(), Some(*id)));
            }
        }
        self.comparisons += 1;
        if got != want {
            return fail("imports-listing", format!("imports() = {got:?}, model {want:?}"));
        }
        // packages
        let got: BTreeSet<String> = g.packages().map(|p| p.name().to_string()).collect();
        let want: BTreeSet<String> = self.m.registered.iter().map(|s| self.pk[*s].name.to_string()).collect();
        self.comparisons += 1;
        if got != want {
            return fail("packages-listing", format!("packages() = {got:?}, model {want:?}"));
        }
        for (slot, p) in self.pk.iter().enumerate() {
            let got = g.get_package_by_name(p.name, None).map(|(id, _)| id);
            let want = self.sut.pkgs.get(&slot).copied();
            if got != want {
                return fail("get_package_by_name", format!("get_package_by_name({}) = {got:?}, model {want:?}", p.name));
            }
        }
        Ok(())
    }

    /// model: which encode errors are justified by the current state
    fn encode_expectation(&self) -> BTreeSet<&'static str> {
        let mut ok = BTreeSet::new();
        // cycle over argument / alias / type-dependency edges
        let mut edges: Vec<(usize, usize)> = vec![];
        for ((i, _), s) in &self.m.args {
            edges.push((*s, *i));
        }
        for (k, n) in &self.m.nodes {
            if let MNodeKind::Alias { src, .. } = &n.kind {
                edges.push((*src, *k));
            }
        }
        let keys: Vec<usize> = self.m.nodes.keys().copied().collect();
        let mut indeg: BTreeMap<usize, usize> = keys.iter().map(|k| (*k, 0)).collect();
        for (_, t) in &edges {
            *indeg.get_mut(t).unwrap() += 1;
        }
        let mut queue: Vec<usize> = indeg.iter().filter(|(_, d)| **d == 0).map(|(k, _)| *k).collect();
        let mut seen = 0;
        while let Some(x) = queue.pop() {
            seen += 1;
            for (s, t) in &edges {
                if *s == x {
                    let d = indeg.get_mut(t).unwrap();
                    *d -= 1;
                    if *d == 0 {
                        queue.push(*t);
                    }
                }
            }
        }
        if seen != keys.len() {
            ok.insert("GraphContainsCycle");
            return ok;
        }
        // implicit import vs explicit import of the same name; merge conflicts among sharers
        let mut implicit: BTreeMap<String, Vec<MK>> = BTreeMap::new();
        for (k, n) in &self.m.nodes {
            if let MNodeKind::Inst(slot) = n.kind {
                for (a, kind) in &self.pk[slot].imports {
                    if !self.m.args.contains_key(&(*k, a.to_string())) {
                        implicit.entry(a.to_string()).or_default().push(kind.clone());
                    }
                }
            }
        }
        let mut any = false;
        for (name, kinds) in &implicit {
            if self.m.import_owner(name).is_some() {
                ok.insert("ImplicitImportConflict");
                any = true;
            }
            // instance requirements merge when same-named exports agree; funcs must be equal
            for w in kinds.windows(2) {
                let compatible = match (&w[0], &w[1]) {
                    (MK::Instance(a), MK::Instance(b)) => a.iter().all(|(n, k)| b.get(n).map(|k2| k2 == k).unwrap_or(true)),
                    (a, b) => a == b,
                };
                if !compatible {
                    ok.insert("ImportTypeMergeConflict");
                    any = true;
                }
            }
            // all pairs, not only neighbours
            for i in 0..kinds.len() {
                for j in 0..kinds.len() {
                    let compatible = match (&kinds[i], &kinds[j]) {
                        (MK::Instance(a), MK::Instance(b)) => a.iter().all(|(n, k)| b.get(n).map(|k2| k2 == k).unwrap_or(true)),
                        (a, b) => a == b,
                    };
                    if !compatible {
                        ok.insert("ImportTypeMergeConflict");
                        any = true;
                    }
                }
            }
        }
        if !any {
            ok.insert("Ok");
        }
        ok
    }

    fn check_encode(&mut self, define_components: bool) -> Result<(), Fail> {
        self.labels.insert("encode");
        let opts = EncodeOptions { define_components, validate: false, processor: None };
        let r = guarded(|| self.sut.g.encode(opts)).map_err(|p| (format!("C06/panic:encode:{}", panic_sig(&p)), format!("encode panicked: {p}")))?;
        let allowed = self.encode_expectation();
        let got = match &r {
            Ok(_) => "Ok",
            Err(EncodeError::GraphContainsCycle { .. }) => "GraphContainsCycle",
            Err(EncodeError::ImplicitImportConflict { .. }) => "ImplicitImportConflict",
            Err(EncodeError::ImportTypeMergeConflict { .. }) => "ImportTypeMergeConflict",
            Err(EncodeError::ValidationFailure { .. }) => "ValidationFailure",
        };
        self.comparisons += 1;
        if !allowed.contains(got) {
            return fail("encode-result", format!("encode returned {got}; the model's state justifies {allowed:?}"));
        }
        if let Ok(bytes) = r {
            if let Err(e) = wasmparser::Validator::new_with_features(wasmparser::WasmFeatures::all()).validate_all(&bytes) {
                return fail("encode-invalid-component", format!("the graph encodes to a component the reference validator rejects: {e}"));
            }
            self.labels.insert("encode-ok");
        }
        Ok(())
    }
}

#[derive(Clone, Debug, Serialize, Deserialize)]
pub struct History {
    pub ops: Vec<Op>,
}

/// Run the operations without the model and observe the result (used by C16).
pub fn observe_history(h: &History) -> String {
    let mut ex = Exec::new();
    for op in &h.ops {
        // the model bookkeeping is needed to pick live operands; failures are not of interest here
        if ex.apply(op).is_err() {
            break;
        }
    }
    let g = &ex.sut.g;
    let mut obs = String::new();
    for define_components in [true, false] {
        match g.encode(EncodeOptions { define_components, validate: false, processor: None }) {
            Ok(b) => obs.push_str(&format!("bytes:{}", sha_hex(&b))),
            Err(e) => obs.push_str(&format!("encode-error:{e}")),
        }
    }
    obs
}

pub fn run_history(h: &History) -> Outcome {
    let mut ex = Exec::new();
    let mut failure = None;
    for (i, op) in h.ops.iter().enumerate() {
        if let Err((sig, msg)) = ex.apply(op) {
            failure = Some((sig, format!("step {i} ({op:?}): {msg}")));
            break;
        }
        if i % 4 == 3 {
            if let Err((sig, msg)) = ex.check_encode(i % 8 == 3) {
                failure = Some((sig, format!("after step {i}: {msg}")));
                break;
            }
        }
    }
    if failure.is_none() {
        if let Err((sig, msg)) = ex.check_encode(true) {
            failure = Some((sig, format!("at the end: {msg}")));
        }
    }
    let nontrivial = ex.freed && ex.touched_after_free;
    let mut o = Outcome::pass().nontrivial(nontrivial).comparisons(ex.comparisons).labels(ex.labels.iter().map(|s| s.to_string()));
    if nontrivial {
        o = o.label("freed-then-touched");
    }
    match failure {
        None => o,
        Some((sig, msg)) => o.with_verdict(Verdict::Fail { sig, msg }),
    }
}

/// Exhaustive tier: every op sequence of length <= L over a reduced op alphabet.
fn exhaustive_alphabet() -> Vec<Op> {
    vec![
        Op::Register(0),
        Op::Register(1),
        Op::Unregister(0),
        Op::Instantiate(0),
        Op::Instantiate(1),
        Op::Import(0, 0),  // import "f": func()
        Op::Import(2, 2),  // import "i": instance
        Op::DefineType(0, 0),
        Op::DefineType(1, 1),
        Op::DefineType(2, 2),
        Op::Alias(0, 0),      // first node, export g
        Op::Alias(40000, 1),  // later node, export e
        Op::SetArg(0, 0, 0),
        Op::SetArg(0, 0, 40000),
        Op::SetArg(40000, 2, 65535),
        Op::UnsetArg(0, 0, 0),
        // one node passed for two arguments of one instantiation (`f` and `g` of test:b are both `func()`), unset by name
        Op::SetArg(0, 3, 40000),
        Op::UnsetArg(0, 0, 40000),
        Op::UnsetArg(0, 3, 40000),
        Op::Export(0, 1),
        Op::Export(0, 2),
        Op::Export(65535, 0),
        Op::Unexport(0),
        Op::Remove(0),
        Op::Remove(65535),
    ]
}

pub fn run(tier: Tier, seed: u64, replay: Option<&std::path::Path>) -> i32 {
    let mut run = Run::new(
        "C06",
        tier,
        seed,
        "exploration",
        "operation histories over the public CompositionGraph API on a tiny universe (3 packages a/b/c where a's and b's exports satisfy each other's imports and a/c conflict on import `i`; 7 import names, 6 export names, 3 defined types forming a chain and a diamond; 6 import kinds). Exhaustive: every sequence up to length L over a 25-op alphabet from four prefixes (symmetry-free prefix tree); random: histories up to 60 ops with removal / re-creation so identifiers and names are reused. After every step the call's result and all queries are compared with a reference model written from the method docs and the guarded invariant hook must report nothing; every 4th step and at the end the graph is encoded (result class must be one the model's state justifies, output must validate). Non-trivial = a removal/unregister/unexport of something that had a dependant, argument edge, export or import name, followed by at least one further operation. Distinct by JSON hash of the op sequence.",
    );
    run.exhaustive = Some(true);
    run.assume("only live identifiers are passed (documented panics on invalid ids are outside the property)");
    run.assume("export of an already exported node adds a name; unexport removes all names; define_type of an already defined type returns TypeAlreadyDefined (the code's documented error) rather than the stale doc sentence");
    if let Some(p) = replay {
        run.replay_case::<History, _>(p, run_history);
        return run.finish();
    }
    // exhaustive prefix tree
    let alpha = exhaustive_alphabet();
    let depth = tier.pick(3, 4);
    let mut seqs: Vec<History> = vec![];
    fn rec(alpha: &[Op], depth: usize, cur: &mut Vec<Op>, out: &mut Vec<History>) {
        if cur.len() == depth {
            out.push(History { ops: cur.clone() });
            return;
        }
        for op in alpha {
            cur.push(op.clone());
            rec(alpha, depth, cur, out);
            cur.pop();
        }
    }
    // a fixed useful prefix so short sequences reach interesting states: packages registered, two instances
    for prefix in [vec![], vec![Op::Register(0), Op::Register(1), Op::Instantiate(0), Op::Instantiate(1)], vec![Op::Register(0), Op::Instantiate(0), Op::Alias(0, 0), Op::Register(1), Op::Instantiate(1), Op::SetArg(40000, 0, 30000)], vec![Op::Register(1), Op::Instantiate(1), Op::Import(0, 0)]] {
        let mut cur = prefix.clone();
        let mut out = vec![];
        rec(&alpha, prefix.len() + depth, &mut cur, &mut out);
        seqs.extend(out);
    }
    run.set_extra("exhaustive_sequences", json!(seqs.len()));
    run.set_extra("exhaustive_depth", json!(depth));
    run.enumerate(&seqs, run_history);
    let n = tier.pick(24_000, 400_000);
    run.explore(1, 16, n / 16, || proptest::collection::vec(op_strategy(), 1..60).prop_map(|ops| History { ops }), run_history);
    for l in ["removal-with-dependants", "freed-then-touched", "cascading-removal", "exported-under-two-names", "encode-ok", "argument-set", "clone"] {
        run.floor(l, 20);
    }
    run.finish()
}
