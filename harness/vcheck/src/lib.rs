pub mod engine;
pub mod gen;
pub mod oracle;
pub mod props;
pub mod wacutil;
