pub mod engine;
pub mod props;
