pub mod engine;
pub mod gen;
pub mod props;
pub mod wacutil;
