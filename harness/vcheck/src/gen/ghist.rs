//! G-hist over generated libraries: operation histories on the public `CompositionGraph` API whose
//! operands are chosen from live identifiers by monotone index, with "auto-wire" steps that connect
//! matching exports to imports so that compositions with real argument edges, diamonds, several
//! instantiations of one package and shared implicit imports are common.

use crate::engine::guarded;
use crate::gen::wit::*;
use proptest::prelude::*;
use serde::{Deserialize, Serialize};
use wac_graph::{CompositionGraph, NodeId, PackageId};
use wac_types::{are_semver_compatible, ItemKind, Package};

/// Hand-shaped packages for what WIT cannot say; (package name, wat).
pub const SHAPED: &[(&str, &str)] = &[
    ("shaped:funcs", r#"(component (import "f" (func)) (import "g" (func)) (import "h" (func (param "x" u8))) (export "f2" (func 0)) (export "g2" (func 1)) (export "h2" (func 2)))"#),
    ("shaped:provider", r#"(component (import "base" (func)) (export "f" (func 0)) (export "g" (func 0)) (import "hh" (func (param "x" u8))) (export "h" (func 1)))"#),
    ("shaped:inst", r#"(component (import "i" (instance (export "f" (func)) (export "j" (instance (export "g" (func (result string))))))) (export "e" (instance 0)) (import "k" (instance (export "f" (func)))) (export "e2" (instance 1)))"#),
    ("shaped:values", r#"(component (import "v" (value string)) (export "w" (value 0)))"#),
    ("shaped:types", r#"(component (type $r (record (field "a" u8))) (import "r" (type (eq $r))) (import "f" (func (param "x" 1) (result 1))) (export "r2" (type 1)) (export "f2" (func 0)))"#),
    ("shaped:module-import", r#"(component (import "m" (core module (import "a" "b" (func)) (export "c" (func (param i32) (result i64))))) (import "f" (func)) (export "f2" (func 0)))"#),
    ("shaped:component-import", r#"(component (import "c" (component (import "x" (func)) (export "y" (func (param "p" u8))))) (import "f" (func)) (export "f2" (func 0)))"#),
    ("shaped:versioned", r#"(component (import "a:b/c@0.2.1" (instance (export "f" (func)))) (import "a:b/c@1.0.0" (instance (export "g" (func)))) (export "a:b/d@0.2.0" (instance 0)))"#),
    ("shaped:versioned2", r#"(component (import "a:b/c@0.2.0" (instance (export "f" (func)) (export "f0" (func)))) (import "a:b/d@0.2.0" (instance (export "f" (func)))) (export "a:b/c@0.2.0" (instance 0)))"#),
    ("shaped:resource", r#"(component (import "r" (type $r (sub resource))) (import "mk" (func (result (own $r)))) (import "use" (func (param "x" (borrow $r)))) (export "mk2" (func 0)))"#),
];

#[derive(Clone, Debug, Serialize, Deserialize, PartialEq)]
pub enum GOp {
    Instantiate(u16),
    Alias(u16, u16),
    AutoWire(u16),
    SetArg(u16, u16, u16),
    Unset(u16, u16),
    /// explicit import for argument (inst, import index); name mode 0 same name, 1 other version on the track, 2 unrelated name; then pass it
    ImportFor(u16, u16, u8, bool),
    Export(u16, u8),
    Name(u16, u8),
    Remove(u16),
    /// re-export every export of an instance (alias + export under its own name)
    ExportAll(u16),
}

pub fn gop_strategy() -> impl Strategy<Value = GOp> {
    prop_oneof![
        6 => any::<u16>().prop_map(GOp::Instantiate),
        4 => (any::<u16>(), any::<u16>()).prop_map(|(a, b)| GOp::Alias(a, b)),
        6 => any::<u16>().prop_map(GOp::AutoWire),
        3 => (any::<u16>(), any::<u16>(), any::<u16>()).prop_map(|(a, b, c)| GOp::SetArg(a, b, c)),
        1 => (any::<u16>(), any::<u16>()).prop_map(|(a, b)| GOp::Unset(a, b)),
        3 => (any::<u16>(), any::<u16>(), 0u8..3, any::<bool>()).prop_map(|(a, b, c, d)| GOp::ImportFor(a, b, c, d)),
        3 => (any::<u16>(), 0u8..4).prop_map(|(a, b)| GOp::Export(a, b)),
        1 => (any::<u16>(), 0u8..3).prop_map(|(a, b)| GOp::Name(a, b)),
        1 => any::<u16>().prop_map(GOp::Remove),
        1 => any::<u16>().prop_map(GOp::ExportAll),
    ]
}

#[derive(Clone, Debug, Serialize, Deserialize)]
pub struct GCase {
    pub lib: LibSpec,
    /// bit mask over `SHAPED`
    pub shaped: u16,
    pub ops: Vec<GOp>,
}

pub fn gcase_strategy(max_ops: usize) -> impl Strategy<Value = GCase> {
    (libspec_strategy(5), prop_oneof![3 => Just(0u16), 2 => any::<u16>()], proptest::collection::vec(gop_strategy(), 1..max_ops)).prop_map(|(lib, shaped, ops)| GCase { lib, shaped, ops })
}

pub struct PkgInfo {
    pub name: String,
    pub version: Option<semver::Version>,
    pub bytes: Vec<u8>,
    pub id: PackageId,
    pub shaped: bool,
}

pub struct Built {
    pub graph: CompositionGraph,
    pub library: Library,
    pub pkgs: Vec<PkgInfo>,
    /// live nodes in creation order
    pub nodes: Vec<NodeId>,
    /// human-readable trace of what each op did
    pub trace: Vec<String>,
    pub labels: std::collections::BTreeSet<&'static str>,
    /// export names given so far (checked against `get_export` by users)
    pub exports: Vec<(String, NodeId)>,
    /// arguments the history designated (every accepted set, minus unsets and removals)
    pub designated: std::collections::BTreeMap<(NodeId, String), NodeId>,
}

pub enum BuildError {
    /// reference toolchain rejected the generated library
    Generator(String),
    /// wac refused / panicked on a valid library component (belongs to C08/C14)
    Foreign(String),
    /// a panic inside a graph operation (belongs to C06)
    OpPanic(String),
}

fn pick(raw: u16, len: usize) -> usize {
    (raw as usize * len) >> 16
}

fn version_on_track(name: &str, other: bool) -> Option<String> {
    let (base, v) = name.split_once('@')?;
    let ver = semver::Version::parse(v).ok()?;
    let nv = if other { semver::Version::new(ver.major, ver.minor, ver.patch + 1) } else { ver };
    Some(format!("{base}@{nv}"))
}

/// Build the library, register every package and run the operations.
pub fn execute(case: &GCase) -> Result<Built, BuildError> {
    let library = build_lib(&case.lib);
    let comps = build_library(&library).map_err(BuildError::Generator)?;
    let mut graph = CompositionGraph::new();
    let mut pkgs = vec![];
    let mut all: Vec<(String, Option<semver::Version>, Vec<u8>, bool)> = comps.into_iter().map(|c| (c.name, c.version, c.bytes, false)).collect();
    for (i, (name, wat)) in SHAPED.iter().enumerate() {
        if case.shaped & (1 << i) != 0 {
            all.push((name.to_string(), None, wat::parse_str(wat).map_err(|e| BuildError::Generator(format!("shaped wat {name}: {e}")))?, true));
        }
    }
    for (name, version, bytes, shaped) in all {
        let r = guarded(|| Package::from_bytes(&name, version.as_ref(), bytes.clone(), graph.types_mut()));
        let pkg = match r {
            Ok(Ok(p)) => p,
            Ok(Err(e)) => return Err(BuildError::Foreign(format!("Package::from_bytes rejected a valid component `{name}`: {e:#}"))),
            Err(p) => return Err(BuildError::Foreign(format!("Package::from_bytes panicked on `{name}`: {p}"))),
        };
        let id = graph.register_package(pkg).map_err(|e| BuildError::Foreign(format!("register_package: {e}")))?;
        pkgs.push(PkgInfo { name, version, bytes, id, shaped });
    }
    let mut b = Built { graph, library, pkgs, nodes: vec![], trace: vec![], labels: Default::default(), exports: vec![], designated: Default::default() };
    for op in &case.ops {
        let r = guarded(|| apply(&mut b, op));
        if let Err(p) = r {
            return Err(BuildError::OpPanic(format!("{op:?}: {p}")));
        }
    }
    Ok(b)
}

fn instantiations(b: &Built) -> Vec<NodeId> {
    b.nodes.iter().copied().filter(|n| matches!(b.graph[*n].kind(), wac_graph::NodeKind::Instantiation(_))).collect()
}

fn instance_nodes(b: &Built) -> Vec<NodeId> {
    b.nodes.iter().copied().filter(|n| matches!(b.graph[*n].item_kind(), ItemKind::Instance(_))).collect()
}

fn imports_of(b: &Built, inst: NodeId) -> Vec<(String, ItemKind)> {
    let pkg = &b.graph[b.graph[inst].package().unwrap()];
    b.graph.types()[pkg.ty()].imports.iter().map(|(n, k)| (n.clone(), *k)).collect()
}

fn exports_of(b: &Built, node: NodeId) -> Vec<(String, ItemKind)> {
    match b.graph[node].item_kind() {
        ItemKind::Instance(id) => b.graph.types()[id].exports.iter().map(|(n, k)| (n.clone(), *k)).collect(),
        _ => vec![],
    }
}

fn satisfied(b: &Built, inst: NodeId, name: &str) -> bool {
    b.graph.get_instantiation_arguments(inst).any(|(n, _)| n == name)
}

fn apply(b: &mut Built, op: &GOp) {
    match op {
        GOp::Instantiate(p) => {
            if b.pkgs.is_empty() {
                return;
            }
            let i = pick(*p, b.pkgs.len());
            let n = b.graph.instantiate(b.pkgs[i].id);
            if instantiations(b).iter().any(|x| b.graph[*x].package() == Some(b.pkgs[i].id)) {
                b.labels.insert("several-instantiations-of-one-package");
            }
            b.nodes.push(n);
            b.trace.push(format!("n{n} = instantiate {}", b.pkgs[i].name));
        }
        GOp::Alias(n, e) => {
            let insts = instance_nodes(b);
            if insts.is_empty() {
                return;
            }
            let src = insts[pick(*n, insts.len())];
            let ex = exports_of(b, src);
            if ex.is_empty() {
                return;
            }
            let (name, _) = &ex[pick(*e, ex.len())];
            if let Ok(a) = b.graph.alias_instance_export(src, name) {
                if !b.nodes.contains(&a) {
                    b.nodes.push(a);
                    if matches!(b.graph[src].kind(), wac_graph::NodeKind::Alias) {
                        b.labels.insert("alias-of-alias");
                    }
                    b.trace.push(format!("n{a} = alias n{src}[{name:?}]"));
                }
            }
        }
        GOp::AutoWire(i) => {
            let insts = instantiations(b);
            if insts.is_empty() {
                return;
            }
            let inst = insts[pick(*i, insts.len())];
            for (name, _) in imports_of(b, inst) {
                if satisfied(b, inst, &name) {
                    continue;
                }
                // candidates: same-named (or semver-compatible) exports of other instantiations, or explicit imports
                let mut done = false;
                for other in instantiations(b) {
                    if other == inst || done {
                        continue;
                    }
                    for (en, _) in exports_of(b, other) {
                        if en == name || are_semver_compatible(&en, &name) {
                            if let Ok(a) = b.graph.alias_instance_export(other, &en) {
                                if !b.nodes.contains(&a) {
                                    b.nodes.push(a);
                                }
                                if b.graph.set_instantiation_argument(inst, &name, a).is_ok() {
                                    b.designated.insert((inst, name.clone()), a);
                                    b.trace.push(format!("n{inst}.{name:?} := n{a} (alias n{other}[{en:?}])"));
                                    b.labels.insert("argument-edge");
                                    if b.graph.get_instantiation_arguments(inst).filter(|(_, s)| *s == a).count() > 1 || instantiations(b).iter().filter(|x| b.graph.get_instantiation_arguments(**x).any(|(_, s)| s == a)).count() > 1 {
                                        b.labels.insert("diamond-reuse");
                                    }
                                    done = true;
                                    break;
                                }
                            }
                        }
                    }
                }
            }
        }
        GOp::SetArg(i, a, s) => {
            let insts = instantiations(b);
            if insts.is_empty() || b.nodes.is_empty() {
                return;
            }
            let inst = insts[pick(*i, insts.len())];
            let im = imports_of(b, inst);
            if im.is_empty() {
                return;
            }
            let (name, _) = &im[pick(*a, im.len())];
            let src = b.nodes[pick(*s, b.nodes.len())];
            if b.graph.set_instantiation_argument(inst, name, src).is_ok() {
                b.designated.entry((inst, name.clone())).or_insert(src);
                b.labels.insert("argument-edge");
                b.trace.push(format!("n{inst}.{name:?} := n{src}"));
            }
        }
        GOp::Unset(i, a) => {
            let insts = instantiations(b);
            if insts.is_empty() {
                return;
            }
            let inst = insts[pick(*i, insts.len())];
            let args: Vec<(String, NodeId)> = b.graph.get_instantiation_arguments(inst).map(|(n, s)| (n.to_string(), s)).collect();
            if args.is_empty() {
                return;
            }
            let (name, src) = &args[pick(*a, args.len())];
            if b.graph.unset_instantiation_argument(inst, name, *src).is_ok() {
                b.designated.remove(&(inst, name.clone()));
                b.trace.push(format!("unset n{inst}.{name:?}"));
            }
        }
        GOp::ImportFor(i, a, mode, pass) => {
            let insts = instantiations(b);
            if insts.is_empty() {
                return;
            }
            let inst = insts[pick(*i, insts.len())];
            let im = imports_of(b, inst);
            if im.is_empty() {
                return;
            }
            let (name, kind) = &im[pick(*a, im.len())];
            let import_name = match mode {
                0 => name.clone(),
                1 => version_on_track(name, true).unwrap_or_else(|| format!("x-{}", b.nodes.len())),
                _ => format!("x-{}", b.nodes.len()),
            };
            match b.graph.import(&import_name, *kind) {
                Ok(n) => {
                    b.nodes.push(n);
                    b.labels.insert("explicit-import");
                    if *mode == 1 && import_name.contains('@') {
                        b.labels.insert("explicit-import-on-track");
                    }
                    b.trace.push(format!("n{n} = import {import_name:?} (kind of n{inst}.{name:?})"));
                    if *pass && b.graph.set_instantiation_argument(inst, name, n).is_ok() {
                        b.designated.entry((inst, name.clone())).or_insert(n);
                        b.labels.insert("argument-edge");
                        b.trace.push(format!("n{inst}.{name:?} := n{n}"));
                    }
                }
                Err(_) => {}
            }
        }
        GOp::Export(n, choice) => {
            if b.nodes.is_empty() {
                return;
            }
            let node = b.nodes[pick(*n, b.nodes.len())];
            let name = match choice {
                0 => match b.graph.get_alias_source(node) {
                    Some((_, e)) => e.to_string(),
                    None => format!("ex{}", b.nodes.len()),
                },
                1 => format!("ex{}", b.trace.len()),
                2 => format!("ns:pkg/ex{}", b.trace.len()),
                _ => format!("ns:pkg/ex{}@1.{}.0", b.trace.len() % 3, b.trace.len() % 2),
            };
            let already = b.graph[node].export_name().is_some();
            if b.graph.export(node, &name).is_ok() {
                b.exports.push((name.clone(), node));
                b.labels.insert("export");
                if already {
                    b.labels.insert("exported-under-several-names");
                }
                b.trace.push(format!("export n{node} as {name:?}"));
            }
        }
        GOp::ExportAll(n) => {
            let insts = instantiations(b);
            if insts.is_empty() {
                return;
            }
            let inst = insts[pick(*n, insts.len())];
            for (en, _) in exports_of(b, inst) {
                if let Ok(a) = b.graph.alias_instance_export(inst, &en) {
                    if !b.nodes.contains(&a) {
                        b.nodes.push(a);
                    }
                    if b.graph.export(a, &en).is_ok() {
                        b.exports.push((en.clone(), a));
                        b.labels.insert("export");
                        b.trace.push(format!("export n{a} (alias n{inst}[{en:?}]) as {en:?}"));
                    }
                }
            }
        }
        GOp::Name(n, s) => {
            if b.nodes.is_empty() {
                return;
            }
            let node = b.nodes[pick(*n, b.nodes.len())];
            let name = ["alpha", "beta", "gamma"][*s as usize % 3];
            b.graph.set_node_name(node, name);
            b.labels.insert("named-node");
            b.trace.push(format!("name n{node} {name:?}"));
        }
        GOp::Remove(n) => {
            if b.nodes.is_empty() {
                return;
            }
            let node = b.nodes[pick(*n, b.nodes.len())];
            b.graph.remove_node(node);
            let live: std::collections::BTreeSet<NodeId> = b.graph.node_ids().collect();
            b.nodes.retain(|x| live.contains(x));
            b.exports.retain(|(name, n)| live.contains(n) && b.graph.get_export(name) == Some(*n));
            b.designated.retain(|(i, _), s| live.contains(i) && live.contains(s));
            b.labels.insert("removal");
            b.trace.push(format!("remove n{node}"));
        }
    }
}
