pub mod wacsyn;
