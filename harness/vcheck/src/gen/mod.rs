pub mod wacsyn;
pub mod wit;
pub mod ghist;
