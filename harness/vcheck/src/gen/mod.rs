pub mod wacsyn;
pub mod wit;
