//! G-wac (syntactic half): an AST model of WAC documents of our own, proptest strategies that
//! derive documents from LANGUAGE.md's EBNF, a token renderer with randomised layout, and the
//! expected serialised tree (in the shape of wac's `Serialize` output with spans/docs removed).

use proptest::prelude::*;
use serde::{Deserialize, Serialize};
use serde_json::{json, Value};

pub const KEYWORDS: &[&str] = &[
    "import", "with", "type", "tuple", "list", "option", "result", "borrow", "resource", "variant", "record", "flags", "enum", "func",
    "static", "constructor", "u8", "s8", "u16", "s16", "u32", "s32", "u64", "s64", "f32", "f64", "char", "bool", "string", "interface",
    "world", "export", "new", "let", "use", "include", "as", "package", "targets",
];

#[derive(Clone, Debug, Serialize, Deserialize, PartialEq)]
pub struct Id {
    pub name: String,
    pub esc: bool,
}

impl Id {
    pub fn new(s: &str) -> Id {
        Id { name: s.to_string(), esc: KEYWORDS.contains(&s) }
    }
    pub fn text(&self) -> String {
        if self.esc || KEYWORDS.contains(&self.name.as_str()) {
            format!("%{}", self.name)
        } else {
            self.name.clone()
        }
    }
    fn json(&self) -> Value {
        json!({ "string": self.name })
    }
}

#[derive(Clone, Debug, Serialize, Deserialize, PartialEq)]
pub struct PkgName {
    pub parts: Vec<Id>,
    pub version: Option<String>,
}

impl PkgName {
    pub fn name_text(&self) -> String {
        self.parts.iter().map(|p| p.text()).collect::<Vec<_>>().join(":")
    }
    pub fn text(&self) -> String {
        match &self.version {
            Some(v) => format!("{}@{}", self.name_text(), v),
            None => self.name_text(),
        }
    }
    fn json(&self) -> Value {
        json!({"string": self.text(), "name": self.name_text(), "version": self.version})
    }
}

#[derive(Clone, Debug, Serialize, Deserialize, PartialEq)]
pub struct Path {
    pub pkg: Vec<Id>,
    pub segs: Vec<Id>,
    pub version: Option<String>,
}

impl Path {
    pub fn name_text(&self) -> String {
        self.pkg.iter().map(|p| p.text()).collect::<Vec<_>>().join(":")
    }
    pub fn segs_text(&self) -> String {
        self.segs.iter().map(|p| p.text()).collect::<Vec<_>>().join("/")
    }
    pub fn text(&self) -> String {
        let mut s = format!("{}/{}", self.name_text(), self.segs_text());
        if let Some(v) = &self.version {
            s.push('@');
            s.push_str(v);
        }
        s
    }
    fn json(&self) -> Value {
        json!({"string": self.text(), "name": self.name_text(), "segments": self.segs_text(), "version": self.version})
    }
}

#[derive(Clone, Debug, Serialize, Deserialize, PartialEq)]
pub enum ExtName {
    Ident(Id),
    Str(String),
}

impl ExtName {
    fn json(&self) -> Value {
        match self {
            ExtName::Ident(i) => json!({"ident": i.json()}),
            ExtName::Str(s) => json!({"string": {"value": s}}),
        }
    }
}

#[derive(Clone, Debug, Serialize, Deserialize, PartialEq)]
pub enum Ty {
    Prim(String),
    Tuple(Vec<Ty>),
    List(Box<Ty>),
    Option(Box<Ty>),
    Result(Option<Box<Ty>>, Option<Box<Ty>>),
    Borrow(Id),
    Ident(Id),
}

pub const PRIMS: &[&str] = &["u8", "s8", "u16", "s16", "u32", "s32", "u64", "s64", "f32", "f64", "char", "bool", "string"];

impl Ty {
    fn json(&self) -> Value {
        match self {
            Ty::Prim(p) => json!({ p.as_str(): null }),
            Ty::Tuple(ts) => json!({"tuple": [ts.iter().map(|t| t.json()).collect::<Vec<_>>(), null]}),
            Ty::List(t) => json!({"list": [t.json(), null]}),
            Ty::Option(t) => json!({"option": [t.json(), null]}),
            Ty::Result(ok, err) => json!({"result": {"ok": ok.as_ref().map(|t| t.json()), "err": err.as_ref().map(|t| t.json())}}),
            Ty::Borrow(i) => json!({"borrow": [i.json(), null]}),
            Ty::Ident(i) => json!({"ident": i.json()}),
        }
    }
}

#[derive(Clone, Debug, Serialize, Deserialize, PartialEq)]
pub struct FuncTy {
    pub params: Vec<(Id, Ty)>,
    pub result: Option<Ty>,
}

fn named_json(ps: &[(Id, Ty)]) -> Value {
    Value::Array(ps.iter().map(|(i, t)| json!({"id": i.json(), "ty": t.json()})).collect())
}

impl FuncTy {
    fn json(&self) -> Value {
        json!({"params": named_json(&self.params), "results": match &self.result { None => json!("empty"), Some(t) => json!({"scalar": t.json()}) }})
    }
}

#[derive(Clone, Debug, Serialize, Deserialize, PartialEq)]
pub enum TypeDecl {
    Variant(Id, Vec<(Id, Option<Ty>)>),
    Record(Id, Vec<(Id, Ty)>),
    Flags(Id, Vec<Id>),
    Enum(Id, Vec<Id>),
    AliasTy(Id, Ty),
    AliasFunc(Id, FuncTy),
}

impl TypeDecl {
    fn json(&self) -> Value {
        match self {
            TypeDecl::Variant(id, cases) => json!({"variant": {"id": id.json(), "cases": cases.iter().map(|(i, t)| json!({"id": i.json(), "ty": t.as_ref().map(|t| t.json())})).collect::<Vec<_>>()}}),
            TypeDecl::Record(id, fields) => json!({"record": {"id": id.json(), "fields": named_json(fields)}}),
            TypeDecl::Flags(id, fs) => json!({"flags": {"id": id.json(), "flags": fs.iter().map(|i| json!({"id": i.json()})).collect::<Vec<_>>()}}),
            TypeDecl::Enum(id, cs) => json!({"enum": {"id": id.json(), "cases": cs.iter().map(|i| json!({"id": i.json()})).collect::<Vec<_>>()}}),
            TypeDecl::AliasTy(id, t) => json!({"alias": {"id": id.json(), "kind": {"type": t.json()}}}),
            TypeDecl::AliasFunc(id, f) => json!({"alias": {"id": id.json(), "kind": {"func": f.json()}}}),
        }
    }
}

#[derive(Clone, Debug, Serialize, Deserialize, PartialEq)]
pub enum ResMethod {
    Ctor(Vec<(Id, Ty)>),
    Method { id: Id, is_static: bool, ty: FuncTy },
}

#[derive(Clone, Debug, Serialize, Deserialize, PartialEq)]
pub enum ItemDecl {
    Resource(Id, Vec<ResMethod>),
    Decl(TypeDecl),
}

impl ItemDecl {
    fn json(&self) -> Value {
        match self {
            ItemDecl::Decl(d) => d.json(),
            ItemDecl::Resource(id, ms) => json!({"resource": {"id": id.json(), "methods": ms.iter().map(|m| match m {
                ResMethod::Ctor(ps) => json!({"constructor": {"params": named_json(ps)}}),
                ResMethod::Method{id, is_static, ty} => json!({"method": {"id": id.json(), "isStatic": is_static, "ty": ty.json()}}),
            }).collect::<Vec<_>>()}}),
        }
    }
}

#[derive(Clone, Debug, Serialize, Deserialize, PartialEq)]
pub enum UsePath {
    Package(Path),
    Ident(Id),
}

#[derive(Clone, Debug, Serialize, Deserialize, PartialEq)]
pub struct Use {
    pub path: UsePath,
    pub items: Vec<(Id, Option<Id>)>,
}

impl Use {
    fn json(&self) -> Value {
        json!({"path": match &self.path { UsePath::Package(p) => json!({"package": p.json()}), UsePath::Ident(i) => json!({"ident": i.json()}) },
               "items": self.items.iter().map(|(i, a)| json!({"id": i.json(), "asId": a.as_ref().map(|a| a.json())})).collect::<Vec<_>>()})
    }
}

#[derive(Clone, Debug, Serialize, Deserialize, PartialEq)]
pub enum FuncRef {
    Func(FuncTy),
    Ident(Id),
}

#[derive(Clone, Debug, Serialize, Deserialize, PartialEq)]
pub enum IfaceItem {
    Use(Use),
    Type(ItemDecl),
    Export(Id, FuncRef),
}

impl IfaceItem {
    fn json(&self) -> Value {
        match self {
            IfaceItem::Use(u) => json!({"use": u.json()}),
            IfaceItem::Type(t) => json!({"type": t.json()}),
            IfaceItem::Export(id, f) => json!({"export": {"id": id.json(), "ty": match f { FuncRef::Func(f) => json!({"func": f.json()}), FuncRef::Ident(i) => json!({"ident": i.json()}) }}}),
        }
    }
}

fn iface_items_json(items: &[IfaceItem]) -> Value {
    Value::Array(items.iter().map(|i| i.json()).collect())
}

#[derive(Clone, Debug, Serialize, Deserialize, PartialEq)]
pub enum ExternTy {
    Ident(Id),
    Func(FuncTy),
    Interface(Vec<IfaceItem>),
}

#[derive(Clone, Debug, Serialize, Deserialize, PartialEq)]
pub enum WPath {
    Named(Id, ExternTy),
    Package(Path),
    Ident(Id),
}

impl WPath {
    fn json(&self) -> Value {
        match self {
            WPath::Named(id, t) => json!({"named": {"id": id.json(), "ty": match t {
                ExternTy::Ident(i) => json!({"ident": i.json()}),
                ExternTy::Func(f) => json!({"func": f.json()}),
                ExternTy::Interface(items) => json!({"interface": {"items": iface_items_json(items)}}),
            }}}),
            WPath::Package(p) => json!({"package": p.json()}),
            WPath::Ident(i) => json!({"ident": i.json()}),
        }
    }
}

#[derive(Clone, Debug, Serialize, Deserialize, PartialEq)]
pub enum WorldRef {
    Ident(Id),
    Package(Path),
}

#[derive(Clone, Debug, Serialize, Deserialize, PartialEq)]
pub enum WorldItem {
    Use(Use),
    Type(ItemDecl),
    Import(WPath),
    Export(WPath),
    Include(WorldRef, Vec<(Id, Id)>),
}

impl WorldItem {
    fn json(&self) -> Value {
        match self {
            WorldItem::Use(u) => json!({"use": u.json()}),
            WorldItem::Type(t) => json!({"type": t.json()}),
            WorldItem::Import(p) => json!({"import": {"path": p.json()}}),
            WorldItem::Export(p) => json!({"export": {"path": p.json()}}),
            WorldItem::Include(w, with) => json!({"include": {"world": match w { WorldRef::Ident(i) => json!({"ident": i.json()}), WorldRef::Package(p) => json!({"package": p.json()}) },
                "with": with.iter().map(|(f, t)| json!({"from": f.json(), "to": t.json()})).collect::<Vec<_>>()}}),
        }
    }
}

#[derive(Clone, Debug, Serialize, Deserialize, PartialEq)]
pub enum Arg {
    Inferred(Id),
    Spread(Id),
    Named(ExtName, Expr),
    Fill,
}

#[derive(Clone, Debug, Serialize, Deserialize, PartialEq)]
pub enum Primary {
    New(PkgName, Vec<Arg>),
    Nested(Box<Expr>),
    Ident(Id),
}

#[derive(Clone, Debug, Serialize, Deserialize, PartialEq)]
pub enum Postfix {
    Access(Id),
    Named(String),
}

#[derive(Clone, Debug, Serialize, Deserialize, PartialEq)]
pub struct Expr {
    pub primary: Primary,
    pub postfix: Vec<Postfix>,
}

impl Expr {
    pub fn json(&self) -> Value {
        let primary = match &self.primary {
            Primary::New(p, args) => json!({"new": {"package": p.json(), "arguments": args.iter().map(|a| match a {
                Arg::Inferred(i) => json!({"inferred": i.json()}),
                Arg::Spread(i) => json!({"spread": i.json()}),
                Arg::Named(n, e) => json!({"named": {"name": n.json(), "expr": e.json()}}),
                Arg::Fill => json!({"fill": null}),
            }).collect::<Vec<_>>()}}),
            Primary::Nested(e) => json!({"nested": {"inner": e.json()}}),
            Primary::Ident(i) => json!({"ident": i.json()}),
        };
        json!({"primary": primary, "postfix": self.postfix.iter().map(|p| match p {
            Postfix::Access(i) => json!({"access": {"id": i.json()}}),
            Postfix::Named(s) => json!({"namedAccess": {"string": {"value": s}}}),
        }).collect::<Vec<_>>()})
    }
}

#[derive(Clone, Debug, Serialize, Deserialize, PartialEq)]
pub enum ImportTy {
    Package(Path),
    Func(FuncTy),
    Interface(Vec<IfaceItem>),
    Ident(Id),
}

#[derive(Clone, Debug, Serialize, Deserialize, PartialEq)]
pub enum ExportOpt {
    None,
    Spread,
    Rename(ExtName),
}

#[derive(Clone, Debug, Serialize, Deserialize, PartialEq)]
pub enum Stmt {
    Import { id: Id, name: Option<ExtName>, ty: ImportTy },
    Interface(Id, Vec<IfaceItem>),
    World(Id, Vec<WorldItem>),
    Type(TypeDecl),
    Let(Id, Expr),
    Export(Expr, ExportOpt),
}

impl Stmt {
    pub fn kind(&self) -> &'static str {
        match self {
            Stmt::Import { .. } => "import",
            Stmt::Interface(..) => "interface",
            Stmt::World(..) => "world",
            Stmt::Type(..) => "type",
            Stmt::Let(..) => "let",
            Stmt::Export(..) => "export",
        }
    }
    fn json(&self) -> Value {
        match self {
            Stmt::Import { id, name, ty } => json!({"Import": {"id": id.json(), "name": name.as_ref().map(|n| n.json()), "ty": match ty {
                ImportTy::Package(p) => json!({"package": p.json()}),
                ImportTy::Func(f) => json!({"func": f.json()}),
                ImportTy::Interface(items) => json!({"interface": {"items": iface_items_json(items)}}),
                ImportTy::Ident(i) => json!({"ident": i.json()}),
            }}}),
            Stmt::Interface(id, items) => json!({"Type": {"interface": {"id": id.json(), "items": iface_items_json(items)}}}),
            Stmt::World(id, items) => json!({"Type": {"world": {"id": id.json(), "items": items.iter().map(|i| i.json()).collect::<Vec<_>>()}}}),
            Stmt::Type(d) => json!({"Type": {"type": d.json()}}),
            Stmt::Let(id, e) => json!({"Let": {"id": id.json(), "expr": e.json()}}),
            Stmt::Export(e, o) => json!({"Export": {"expr": e.json(), "options": match o {
                ExportOpt::None => json!("none"),
                ExportOpt::Spread => json!({"spread": null}),
                ExportOpt::Rename(n) => json!({"rename": n.json()}),
            }}}),
        }
    }
}

#[derive(Clone, Debug, Serialize, Deserialize, PartialEq)]
pub struct Doc {
    pub package: PkgName,
    pub targets: Option<Path>,
    pub stmts: Vec<Stmt>,
}

impl Doc {
    /// The expected tree, in the normalised shape of `normalize(serde_json::to_value(wac_doc))`.
    pub fn json(&self) -> Value {
        let mut directive = serde_json::Map::new();
        directive.insert("package".into(), self.package.json());
        if let Some(t) = &self.targets {
            directive.insert("targets".into(), t.json());
        }
        json!({"directive": Value::Object(directive), "statements": self.stmts.iter().map(|s| s.json()).collect::<Vec<_>>()})
    }
}

/// Strip source positions and doc comments from wac's serialised tree.
pub fn normalize(v: &Value) -> Value {
    match v {
        Value::Object(m) => {
            if m.len() == 2 && m.contains_key("offset") && m.contains_key("length") {
                return Value::Null;
            }
            let mut out = serde_json::Map::new();
            for (k, v) in m {
                if k == "span" || k == "docs" {
                    continue;
                }
                out.insert(k.clone(), normalize(v));
            }
            Value::Object(out)
        }
        Value::Array(a) => Value::Array(a.iter().map(normalize).collect()),
        other => other.clone(),
    }
}

/// Like `normalize` but keeps docs, flattened to non-empty trimmed lines (tolerance T6).
pub fn normalize_keep_docs(v: &Value) -> Value {
    match v {
        Value::Object(m) => {
            if m.len() == 2 && m.contains_key("offset") && m.contains_key("length") {
                return Value::Null;
            }
            let mut out = serde_json::Map::new();
            for (k, v) in m {
                if k == "span" {
                    continue;
                }
                if k == "docs" {
                    let mut lines = vec![];
                    if let Value::Array(ds) = v {
                        for d in ds {
                            if let Some(c) = d.get("comment").and_then(|c| c.as_str()) {
                                for l in c.lines() {
                                    let l = l.trim();
                                    if !l.is_empty() {
                                        lines.push(Value::String(l.to_string()));
                                    }
                                }
                            }
                        }
                    }
                    out.insert(k.clone(), Value::Array(lines));
                    continue;
                }
                out.insert(k.clone(), normalize_keep_docs(v));
            }
            Value::Object(out)
        }
        Value::Array(a) => Value::Array(a.iter().map(normalize_keep_docs).collect()),
        other => other.clone(),
    }
}

// ---------------------------------------------------------------------------------------------
// rendering

#[derive(Clone, Debug, PartialEq, Eq, Serialize, Deserialize)]
pub enum TokClass {
    Keyword,
    Ident,
    PkgName,
    PkgPath,
    Str,
    Sym,
}

#[derive(Clone, Debug, PartialEq, Eq, Serialize, Deserialize)]
pub struct Tok {
    pub text: String,
    pub class: TokClass,
}

pub struct Toks {
    pub toks: Vec<Tok>,
    /// layout decisions (trailing commas, `;` vs `{}`) are drawn from here
    choices: Vec<u8>,
    ci: usize,
}

impl Toks {
    fn choice(&mut self) -> u8 {
        if self.choices.is_empty() {
            return 0;
        }
        let c = self.choices[self.ci % self.choices.len()];
        self.ci += 1;
        c
    }
    fn kw(&mut self, s: &str) {
        self.toks.push(Tok { text: s.to_string(), class: TokClass::Keyword });
    }
    fn sym(&mut self, s: &str) {
        self.toks.push(Tok { text: s.to_string(), class: TokClass::Sym });
    }
    fn id(&mut self, i: &Id) {
        self.toks.push(Tok { text: i.text(), class: TokClass::Ident });
    }
    fn string(&mut self, s: &str) {
        self.toks.push(Tok { text: format!("\"{s}\""), class: TokClass::Str });
    }
    fn ext(&mut self, n: &ExtName) {
        match n {
            ExtName::Ident(i) => self.id(i),
            ExtName::Str(s) => self.string(s),
        }
    }
    fn path(&mut self, p: &Path) {
        self.toks.push(Tok { text: p.text(), class: TokClass::PkgPath });
    }
    fn pkg(&mut self, p: &PkgName) {
        self.toks.push(Tok { text: p.text(), class: TokClass::PkgName });
    }
    fn comma_list<T>(&mut self, items: &[T], mut f: impl FnMut(&mut Self, &T)) {
        for (i, it) in items.iter().enumerate() {
            if i > 0 {
                self.sym(",");
            }
            f(self, it);
        }
        if !items.is_empty() && self.choice() % 3 == 1 {
            self.sym(",");
        }
    }
    fn ty(&mut self, t: &Ty) {
        match t {
            Ty::Prim(p) => self.kw(p),
            Ty::Tuple(ts) => {
                self.kw("tuple");
                self.sym("<");
                self.comma_list(ts, |s, t| s.ty(t));
                self.sym(">");
            }
            Ty::List(t) => {
                self.kw("list");
                self.sym("<");
                self.ty(t);
                self.sym(">");
            }
            Ty::Option(t) => {
                self.kw("option");
                self.sym("<");
                self.ty(t);
                self.sym(">");
            }
            Ty::Result(ok, err) => {
                self.kw("result");
                match (ok, err) {
                    (None, None) => {}
                    (Some(ok), None) => {
                        self.sym("<");
                        self.ty(ok);
                        self.sym(">");
                    }
                    (None, Some(err)) => {
                        self.sym("<");
                        self.sym("_");
                        self.sym(",");
                        self.ty(err);
                        self.sym(">");
                    }
                    (Some(ok), Some(err)) => {
                        self.sym("<");
                        self.ty(ok);
                        self.sym(",");
                        self.ty(err);
                        self.sym(">");
                    }
                }
            }
            Ty::Borrow(i) => {
                self.kw("borrow");
                self.sym("<");
                self.id(i);
                self.sym(">");
            }
            Ty::Ident(i) => self.id(i),
        }
    }
    fn named(&mut self, ps: &[(Id, Ty)]) {
        self.comma_list(ps, |s, (i, t)| {
            s.id(i);
            s.sym(":");
            s.ty(t);
        });
    }
    fn func(&mut self, f: &FuncTy) {
        self.kw("func");
        self.sym("(");
        self.named(&f.params);
        self.sym(")");
        if let Some(r) = &f.result {
            self.sym("->");
            self.ty(r);
        }
    }
    fn type_decl(&mut self, d: &TypeDecl) {
        match d {
            TypeDecl::Variant(id, cases) => {
                self.kw("variant");
                self.id(id);
                self.sym("{");
                self.comma_list(cases, |s, (i, t)| {
                    s.id(i);
                    if let Some(t) = t {
                        s.sym("(");
                        s.ty(t);
                        s.sym(")");
                    }
                });
                self.sym("}");
            }
            TypeDecl::Record(id, fields) => {
                self.kw("record");
                self.id(id);
                self.sym("{");
                self.named(fields);
                self.sym("}");
            }
            TypeDecl::Flags(id, fs) => {
                self.kw("flags");
                self.id(id);
                self.sym("{");
                self.comma_list(fs, |s, i| s.id(i));
                self.sym("}");
            }
            TypeDecl::Enum(id, cs) => {
                self.kw("enum");
                self.id(id);
                self.sym("{");
                self.comma_list(cs, |s, i| s.id(i));
                self.sym("}");
            }
            TypeDecl::AliasTy(id, t) => {
                self.kw("type");
                self.id(id);
                self.sym("=");
                self.ty(t);
                self.sym(";");
            }
            TypeDecl::AliasFunc(id, f) => {
                self.kw("type");
                self.id(id);
                self.sym("=");
                self.func(f);
                self.sym(";");
            }
        }
    }
    fn item_decl(&mut self, d: &ItemDecl) {
        match d {
            ItemDecl::Decl(d) => self.type_decl(d),
            ItemDecl::Resource(id, ms) => {
                self.kw("resource");
                self.id(id);
                if ms.is_empty() && self.choice() % 2 == 0 {
                    self.sym(";");
                    return;
                }
                self.sym("{");
                for m in ms {
                    match m {
                        ResMethod::Ctor(ps) => {
                            self.kw("constructor");
                            self.sym("(");
                            self.named(ps);
                            self.sym(")");
                            self.sym(";");
                        }
                        ResMethod::Method { id, is_static, ty } => {
                            self.id(id);
                            self.sym(":");
                            if *is_static {
                                self.kw("static");
                            }
                            self.func(ty);
                            self.sym(";");
                        }
                    }
                }
                self.sym("}");
            }
        }
    }
    fn use_(&mut self, u: &Use) {
        self.kw("use");
        match &u.path {
            UsePath::Package(p) => self.path(p),
            UsePath::Ident(i) => self.id(i),
        }
        self.sym(".");
        self.sym("{");
        self.comma_list(&u.items, |s, (i, a)| {
            s.id(i);
            if let Some(a) = a {
                s.kw("as");
                s.id(a);
            }
        });
        self.sym("}");
        self.sym(";");
    }
    fn iface_items(&mut self, items: &[IfaceItem]) {
        for it in items {
            match it {
                IfaceItem::Use(u) => self.use_(u),
                IfaceItem::Type(t) => self.item_decl(t),
                IfaceItem::Export(id, f) => {
                    self.id(id);
                    self.sym(":");
                    match f {
                        FuncRef::Func(f) => self.func(f),
                        FuncRef::Ident(i) => self.id(i),
                    }
                    self.sym(";");
                }
            }
        }
    }
    fn wpath(&mut self, p: &WPath) {
        match p {
            WPath::Named(id, t) => {
                self.id(id);
                self.sym(":");
                match t {
                    ExternTy::Ident(i) => self.id(i),
                    ExternTy::Func(f) => self.func(f),
                    ExternTy::Interface(items) => {
                        self.kw("interface");
                        self.sym("{");
                        self.iface_items(items);
                        self.sym("}");
                    }
                }
            }
            WPath::Package(p) => self.path(p),
            WPath::Ident(i) => self.id(i),
        }
    }
    pub fn expr(&mut self, e: &Expr) {
        match &e.primary {
            Primary::New(p, args) => {
                self.kw("new");
                self.pkg(p);
                self.sym("{");
                for (i, a) in args.iter().enumerate() {
                    if i > 0 {
                        self.sym(",");
                    }
                    match a {
                        Arg::Inferred(i) => self.id(i),
                        Arg::Spread(i) => {
                            self.sym("...");
                            self.id(i);
                        }
                        Arg::Named(n, e) => {
                            self.ext(n);
                            self.sym(":");
                            self.expr(e);
                        }
                        Arg::Fill => self.sym("..."),
                    }
                }
                if !args.is_empty() && self.choice() % 3 == 1 {
                    self.sym(",");
                }
                self.sym("}");
            }
            Primary::Nested(e) => {
                self.sym("(");
                self.expr(e);
                self.sym(")");
            }
            Primary::Ident(i) => self.id(i),
        }
        for p in &e.postfix {
            match p {
                Postfix::Access(i) => {
                    self.sym(".");
                    self.id(i);
                }
                Postfix::Named(s) => {
                    self.sym("[");
                    self.string(s);
                    self.sym("]");
                }
            }
        }
    }
    fn stmt(&mut self, s: &Stmt) {
        match s {
            Stmt::Import { id, name, ty } => {
                self.kw("import");
                self.id(id);
                if let Some(n) = name {
                    self.kw("as");
                    self.ext(n);
                }
                self.sym(":");
                match ty {
                    ImportTy::Package(p) => self.path(p),
                    ImportTy::Func(f) => self.func(f),
                    ImportTy::Interface(items) => {
                        self.kw("interface");
                        self.sym("{");
                        self.iface_items(items);
                        self.sym("}");
                    }
                    ImportTy::Ident(i) => self.id(i),
                }
                self.sym(";");
            }
            Stmt::Interface(id, items) => {
                self.kw("interface");
                self.id(id);
                self.sym("{");
                self.iface_items(items);
                self.sym("}");
            }
            Stmt::World(id, items) => {
                self.kw("world");
                self.id(id);
                self.sym("{");
                for it in items {
                    match it {
                        WorldItem::Use(u) => self.use_(u),
                        WorldItem::Type(t) => self.item_decl(t),
                        WorldItem::Import(p) => {
                            self.kw("import");
                            self.wpath(p);
                            self.sym(";");
                        }
                        WorldItem::Export(p) => {
                            self.kw("export");
                            self.wpath(p);
                            self.sym(";");
                        }
                        WorldItem::Include(w, with) => {
                            self.kw("include");
                            match w {
                                WorldRef::Ident(i) => self.id(i),
                                WorldRef::Package(p) => self.path(p),
                            }
                            if !with.is_empty() {
                                self.kw("with");
                                self.sym("{");
                                self.comma_list(with, |s, (f, t)| {
                                    s.id(f);
                                    s.kw("as");
                                    s.id(t);
                                });
                                self.sym("}");
                            }
                            self.sym(";");
                        }
                    }
                }
                self.sym("}");
            }
            Stmt::Type(d) => self.type_decl(d),
            Stmt::Let(id, e) => {
                self.kw("let");
                self.id(id);
                self.sym("=");
                self.expr(e);
                self.sym(";");
            }
            Stmt::Export(e, o) => {
                self.kw("export");
                self.expr(e);
                match o {
                    ExportOpt::None => {}
                    ExportOpt::Spread => self.sym("..."),
                    ExportOpt::Rename(n) => {
                        self.kw("as");
                        self.ext(n);
                    }
                }
                self.sym(";");
            }
        }
    }
}

pub fn tokens(doc: &Doc, choices: &[u8]) -> Vec<Tok> {
    let mut t = Toks { toks: vec![], choices: choices.to_vec(), ci: 0 };
    t.kw("package");
    t.pkg(&doc.package);
    if let Some(p) = &doc.targets {
        t.kw("targets");
        t.path(p);
    }
    t.sym(";");
    for s in &doc.stmts {
        t.stmt(s);
    }
    t.toks
}

const LAYOUT: &[&str] = &[
    " ",
    "",
    "\n",
    "\t",
    "  \r\n  ",
    " // line comment ; } \" \n",
    " /* block */ ",
    "/* a /* nested \" */ b */",
    "\n/// doc text\n",
    " /** block doc\n     second line */ ",
    "/**/",
    "// \u{2603} unicode \u{1F600}\n",
    "/***/",
    "\n///\n",
    "\n/// \t  padded  \n",
];

fn is_word_class(t: &Tok) -> bool {
    matches!(t.class, TokClass::Keyword | TokClass::Ident | TokClass::PkgName | TokClass::PkgPath)
}

fn starts_wordy(t: &Tok) -> bool {
    t.text.chars().next().map(|c| c.is_ascii_alphanumeric() || c == '%').unwrap_or(false)
}

/// Is some layout *required* between two adjacent tokens so that the text tokenises as intended?
/// (`id ':' id` is handled in `render`: layout is needed on at least one side of the colon.)
pub fn sep_required(a: &Tok, b: &Tok) -> bool {
    is_word_class(a) && starts_wordy(b) && b.class != TokClass::Str
}

/// Render tokens with layout drawn from `layout` (cyclic). Empty `layout` = single spaces.
pub fn render(toks: &[Tok], layout: &[u8]) -> String {
    let mut out = String::new();
    let mut li = 0usize;
    let mut piece = |required: bool| -> &'static str {
        if layout.is_empty() {
            return " ";
        }
        let b = layout[li % layout.len()];
        li += 1;
        let p = LAYOUT[(b as usize * LAYOUT.len()) >> 8];
        if p.is_empty() && required {
            " "
        } else {
            p
        }
    };
    // leading layout
    out.push_str(piece(false));
    let mut prev_gap_empty = false;
    for (i, t) in toks.iter().enumerate() {
        out.push_str(&t.text);
        let required = match toks.get(i + 1) {
            Some(n) => {
                sep_required(t, n)
                    || (t.text == ":" && t.class == TokClass::Sym && prev_gap_empty && i > 0 && is_word_class(&toks[i - 1]) && starts_wordy(n) && n.class != TokClass::Str)
            }
            None => false,
        };
        let p = piece(required);
        prev_gap_empty = p.is_empty();
        out.push_str(p);
    }
    out
}

// ---------------------------------------------------------------------------------------------
// strategies

const WORDS: &[&str] = &["a", "b", "c", "foo", "bar", "baz", "x1", "y2z", "n", "item", "get", "set", "id", "handle", "stream"];

pub fn id_strategy() -> impl Strategy<Value = Id> {
    prop_oneof![
        10 => proptest::sample::select(WORDS).prop_map(Id::new),
        4 => (proptest::sample::select(WORDS), proptest::sample::select(WORDS)).prop_map(|(a, b)| Id::new(&format!("{a}-{b}"))),
        2 => proptest::sample::select(KEYWORDS).prop_map(Id::new),
        2 => proptest::sample::select(WORDS).prop_map(|w| Id { name: w.to_string(), esc: true }),
        1 => (proptest::sample::select(KEYWORDS), proptest::sample::select(WORDS)).prop_map(|(a, b)| Id::new(&format!("{a}-{b}"))),
        1 => proptest::sample::select(WORDS).prop_map(|w| Id::new(&w.to_uppercase())),
        1 => (proptest::sample::select(WORDS), proptest::sample::select(WORDS)).prop_map(|(a, b)| Id::new(&format!("{}-{b}", a.to_uppercase()))),
        1 => "[a-z][a-z0-9]{0,6}(-[a-z][a-z0-9]{0,4}){0,2}".prop_map(|s| Id::new(&s)),
    ]
}

pub fn version_strategy() -> impl Strategy<Value = String> {
    prop_oneof![
        6 => (0u32..4, 0u32..4, 0u32..4).prop_map(|(a, b, c)| format!("{a}.{b}.{c}")),
        1 => (0u32..1000, 0u32..50, 0u32..50).prop_map(|(a, b, c)| format!("{a}.{b}.{c}")),
        1 => Just("1.0.0-rc.1".to_string()),
        1 => Just("0.2.0-alpha".to_string()),
        1 => Just("1.2.3+build.5".to_string()),
        1 => Just("0.1.0-beta.2+exp.sha.5114f85".to_string()),
    ]
}

pub fn pkgname_strategy() -> impl Strategy<Value = PkgName> {
    (proptest::collection::vec(id_strategy(), 2..4), proptest::option::weighted(0.3, version_strategy())).prop_map(|(parts, version)| PkgName { parts, version })
}

pub fn path_strategy() -> impl Strategy<Value = Path> {
    (proptest::collection::vec(id_strategy(), 2..4), proptest::collection::vec(id_strategy(), 1..3), proptest::option::weighted(0.3, version_strategy()))
        .prop_map(|(pkg, segs, version)| Path { pkg, segs, version })
}

pub fn string_strategy() -> impl Strategy<Value = String> {
    prop_oneof![
        4 => proptest::sample::select(WORDS).prop_map(|s| s.to_string()),
        2 => Just("wasi:io/streams@0.2.0".to_string()),
        1 => Just("".to_string()),
        1 => Just("with space // and /* comment */ chars\nnewline".to_string()),
        1 => "[ -!#-~]{0,12}",
        1 => Just("\u{2603} \u{e9}".to_string()),
    ]
}

pub fn extname_strategy() -> impl Strategy<Value = ExtName> {
    prop_oneof![id_strategy().prop_map(ExtName::Ident), string_strategy().prop_map(ExtName::Str)]
}

pub fn ty_strategy() -> impl Strategy<Value = Ty> {
    let leaf = prop_oneof![
        6 => proptest::sample::select(PRIMS).prop_map(|p| Ty::Prim(p.to_string())),
        3 => id_strategy().prop_map(Ty::Ident),
        1 => id_strategy().prop_map(Ty::Borrow),
        1 => Just(Ty::Result(None, None)),
    ];
    leaf.prop_recursive(3, 12, 3, |inner| {
        prop_oneof![
            proptest::collection::vec(inner.clone(), 1..4).prop_map(Ty::Tuple),
            inner.clone().prop_map(|t| Ty::List(Box::new(t))),
            inner.clone().prop_map(|t| Ty::Option(Box::new(t))),
            inner.clone().prop_map(|t| Ty::Result(Some(Box::new(t)), None)),
            inner.clone().prop_map(|t| Ty::Result(None, Some(Box::new(t)))),
            (inner.clone(), inner).prop_map(|(a, b)| Ty::Result(Some(Box::new(a)), Some(Box::new(b)))),
        ]
    })
}

pub fn named_strategy(max: usize) -> impl Strategy<Value = Vec<(Id, Ty)>> {
    proptest::collection::vec((id_strategy(), ty_strategy()), 0..max)
}

pub fn func_strategy() -> impl Strategy<Value = FuncTy> {
    (named_strategy(4), proptest::option::of(ty_strategy())).prop_map(|(params, result)| FuncTy { params, result })
}

pub fn typedecl_strategy() -> impl Strategy<Value = TypeDecl> {
    prop_oneof![
        (id_strategy(), proptest::collection::vec((id_strategy(), proptest::option::of(ty_strategy())), 1..4)).prop_map(|(i, c)| TypeDecl::Variant(i, c)),
        (id_strategy(), proptest::collection::vec((id_strategy(), ty_strategy()), 1..4)).prop_map(|(i, f)| TypeDecl::Record(i, f)),
        (id_strategy(), proptest::collection::vec(id_strategy(), 1..4)).prop_map(|(i, f)| TypeDecl::Flags(i, f)),
        (id_strategy(), proptest::collection::vec(id_strategy(), 1..4)).prop_map(|(i, f)| TypeDecl::Enum(i, f)),
        (id_strategy(), ty_strategy()).prop_map(|(i, t)| TypeDecl::AliasTy(i, t)),
        (id_strategy(), func_strategy()).prop_map(|(i, t)| TypeDecl::AliasFunc(i, t)),
    ]
}

pub fn itemdecl_strategy() -> impl Strategy<Value = ItemDecl> {
    let method = prop_oneof![
        1 => named_strategy(3).prop_map(ResMethod::Ctor),
        3 => (id_strategy(), any::<bool>(), func_strategy()).prop_map(|(id, is_static, ty)| ResMethod::Method { id, is_static, ty }),
    ];
    prop_oneof![
        2 => typedecl_strategy().prop_map(ItemDecl::Decl),
        1 => (id_strategy(), proptest::collection::vec(method, 0..4)).prop_map(|(i, m)| ItemDecl::Resource(i, m)),
    ]
}

pub fn use_strategy() -> impl Strategy<Value = Use> {
    (
        prop_oneof![path_strategy().prop_map(UsePath::Package), id_strategy().prop_map(UsePath::Ident)],
        proptest::collection::vec((id_strategy(), proptest::option::weighted(0.4, id_strategy())), 1..4),
    )
        .prop_map(|(path, items)| Use { path, items })
}

pub fn iface_items_strategy() -> impl Strategy<Value = Vec<IfaceItem>> {
    let item = prop_oneof![
        1 => use_strategy().prop_map(IfaceItem::Use),
        2 => itemdecl_strategy().prop_map(IfaceItem::Type),
        2 => (id_strategy(), prop_oneof![3 => func_strategy().prop_map(FuncRef::Func), 1 => id_strategy().prop_map(FuncRef::Ident)]).prop_map(|(i, f)| IfaceItem::Export(i, f)),
    ];
    proptest::collection::vec(item, 0..4)
}

pub fn wpath_strategy() -> impl Strategy<Value = WPath> {
    prop_oneof![
        (
            id_strategy(),
            prop_oneof![id_strategy().prop_map(ExternTy::Ident), func_strategy().prop_map(ExternTy::Func), iface_items_strategy().prop_map(ExternTy::Interface)]
        )
            .prop_map(|(i, t)| WPath::Named(i, t)),
        path_strategy().prop_map(WPath::Package),
        id_strategy().prop_map(WPath::Ident),
    ]
}

pub fn world_items_strategy() -> impl Strategy<Value = Vec<WorldItem>> {
    let item = prop_oneof![
        1 => use_strategy().prop_map(WorldItem::Use),
        1 => itemdecl_strategy().prop_map(WorldItem::Type),
        2 => wpath_strategy().prop_map(WorldItem::Import),
        2 => wpath_strategy().prop_map(WorldItem::Export),
        1 => (
            prop_oneof![id_strategy().prop_map(WorldRef::Ident), path_strategy().prop_map(WorldRef::Package)],
            proptest::collection::vec((id_strategy(), id_strategy()), 0..3)
        )
            .prop_map(|(w, with)| WorldItem::Include(w, with)),
    ];
    proptest::collection::vec(item, 0..5)
}

pub fn expr_strategy() -> impl Strategy<Value = Expr> {
    let postfix = || proptest::collection::vec(prop_oneof![id_strategy().prop_map(Postfix::Access), string_strategy().prop_map(Postfix::Named)], 0..3);
    let leaf = (id_strategy(), postfix()).prop_map(|(i, postfix)| Expr { primary: Primary::Ident(i), postfix });
    leaf.prop_recursive(3, 10, 4, move |inner| {
        let arg = prop_oneof![
            3 => id_strategy().prop_map(Arg::Inferred),
            2 => id_strategy().prop_map(Arg::Spread),
            3 => (extname_strategy(), inner.clone()).prop_map(|(n, e)| Arg::Named(n, e)),
            1 => Just(Arg::Fill),
        ];
        let args = (proptest::collection::vec(arg, 0..4), any::<bool>()).prop_map(|(mut a, fill)| {
            if fill {
                a.push(Arg::Fill);
            }
            a
        });
        prop_oneof![
            3 => (pkgname_strategy(), args, postfix()).prop_map(|(p, a, postfix)| Expr { primary: Primary::New(p, a), postfix }),
            1 => (inner, postfix()).prop_map(|(e, postfix)| Expr { primary: Primary::Nested(Box::new(e)), postfix }),
        ]
    })
}

pub fn stmt_strategy() -> impl Strategy<Value = Stmt> {
    prop_oneof![
        3 => (
            id_strategy(),
            proptest::option::weighted(0.4, extname_strategy()),
            prop_oneof![
                path_strategy().prop_map(ImportTy::Package),
                func_strategy().prop_map(ImportTy::Func),
                iface_items_strategy().prop_map(ImportTy::Interface),
                id_strategy().prop_map(ImportTy::Ident)
            ]
        )
            .prop_map(|(id, name, ty)| Stmt::Import { id, name, ty }),
        2 => (id_strategy(), iface_items_strategy()).prop_map(|(i, it)| Stmt::Interface(i, it)),
        2 => (id_strategy(), world_items_strategy()).prop_map(|(i, it)| Stmt::World(i, it)),
        2 => typedecl_strategy().prop_map(Stmt::Type),
        4 => (id_strategy(), expr_strategy()).prop_map(|(i, e)| Stmt::Let(i, e)),
        3 => (
            expr_strategy(),
            prop_oneof![2 => Just(ExportOpt::None), 1 => Just(ExportOpt::Spread), 2 => extname_strategy().prop_map(ExportOpt::Rename)]
        )
            .prop_map(|(e, o)| Stmt::Export(e, o)),
    ]
}

pub fn doc_strategy(max_stmts: usize) -> impl Strategy<Value = Doc> {
    (pkgname_strategy(), proptest::option::weighted(0.35, path_strategy()), proptest::collection::vec(stmt_strategy(), 0..max_stmts))
        .prop_map(|(package, targets, stmts)| Doc { package, targets, stmts })
}

#[derive(Clone, Debug, Serialize, Deserialize)]
pub struct SynCase {
    pub doc: Doc,
    /// layout bytes (between tokens) and structural layout choices (trailing commas, `;` vs `{}`)
    pub layout: Vec<u8>,
    pub choices: Vec<u8>,
}

impl SynCase {
    pub fn toks(&self) -> Vec<Tok> {
        tokens(&self.doc, &self.choices)
    }
    pub fn text(&self) -> String {
        render(&self.toks(), &self.layout)
    }
}

pub fn syncase_strategy(max_stmts: usize) -> impl Strategy<Value = SynCase> {
    (doc_strategy(max_stmts), proptest::collection::vec(any::<u8>(), 0..24), proptest::collection::vec(any::<u8>(), 0..8))
        .prop_map(|(doc, layout, choices)| SynCase { doc, layout, choices })
}

/// Features of a document relevant to C13's non-triviality rule.
pub fn features(doc: &Doc, toks: &[Tok]) -> Vec<&'static str> {
    let mut f = vec![];
    if doc.targets.is_some() {
        f.push("targets-clause");
    }
    if doc.package.version.is_some() || toks.iter().any(|t| matches!(t.class, TokClass::PkgName | TokClass::PkgPath) && t.text.contains('@')) {
        f.push("version");
    }
    if toks.iter().any(|t| t.class == TokClass::Ident && t.text.starts_with('%')) {
        f.push("percent-escape");
    }
    if toks.iter().any(|t| t.class == TokClass::Str) {
        f.push("string-name");
    }
    for w in toks.windows(2) {
        if w[0].text == "static" {
            f.push("static-method");
        }
        if w[0].text == "constructor" {
            f.push("constructor");
        }
        if w[0].text == "..." && w[1].class == TokClass::Ident {
            f.push("arg-spread-or-export-spread");
        }
        if w[0].text == "..." && w[1].text == "," {
            f.push("non-final-fill");
        }
        if w[0].text == "..." && w[1].text == "}" {
            f.push("final-fill");
        }
        if w[0].text == "with" {
            f.push("include-with");
        }
    }
    fn has_use_rename(items: &[IfaceItem]) -> bool {
        items.iter().any(|i| match i {
            IfaceItem::Use(u) => u.items.iter().any(|(_, a)| a.is_some()),
            _ => false,
        })
    }
    for s in &doc.stmts {
        match s {
            Stmt::Interface(_, items) if has_use_rename(items) => f.push("use-rename"),
            Stmt::World(_, items) if items.iter().any(|i| matches!(i, WorldItem::Use(u) if u.items.iter().any(|(_, a)| a.is_some()))) => f.push("use-rename"),
            Stmt::Let(_, e) | Stmt::Export(e, _) => {
                fn walk(e: &Expr, f: &mut Vec<&'static str>) {
                    match &e.primary {
                        Primary::New(_, args) => {
                            for a in args {
                                match a {
                                    Arg::Inferred(_) => f.push("arg-inferred"),
                                    Arg::Spread(_) => f.push("arg-spread"),
                                    Arg::Named(_, e) => {
                                        f.push("arg-named");
                                        walk(e, f)
                                    }
                                    Arg::Fill => f.push("arg-fill"),
                                }
                            }
                        }
                        Primary::Nested(e) => walk(e, f),
                        Primary::Ident(_) => {}
                    }
                }
                walk(e, &mut f);
            }
            _ => {}
        }
    }
    f.sort();
    f.dedup();
    f
}

// ---------------------------------------------------------------------------------------------
// package references placed by the generator (for C17)

#[derive(Clone, Debug, PartialEq, Eq, PartialOrd, Ord)]
pub enum RefKind {
    Targets,
    ImportPath,
    UsePath,
    WorldItemPath,
    Include,
    New,
}

#[derive(Clone, Debug)]
pub struct PkgRef {
    /// package name as written (without version)
    pub name: String,
    pub version: Option<String>,
    /// first path segment (interface / world name) if the reference is a path
    pub segment: Option<String>,
    pub kind: RefKind,
    /// nesting depth of the syntactic position (0 = statement level)
    pub depth: usize,
}

fn path_ref(p: &Path, kind: RefKind, depth: usize) -> PkgRef {
    PkgRef { name: p.name_text(), version: p.version.clone(), segment: p.segs.first().map(|s| s.text()), kind, depth }
}

fn refs_iface_items(items: &[IfaceItem], depth: usize, out: &mut Vec<PkgRef>) {
    for it in items {
        if let IfaceItem::Use(u) = it {
            if let UsePath::Package(p) = &u.path {
                out.push(path_ref(p, RefKind::UsePath, depth));
            }
        }
    }
}

fn refs_expr(e: &Expr, depth: usize, out: &mut Vec<PkgRef>) {
    match &e.primary {
        Primary::New(p, args) => {
            out.push(PkgRef { name: p.name_text(), version: p.version.clone(), segment: None, kind: RefKind::New, depth });
            for a in args {
                if let Arg::Named(_, e) = a {
                    refs_expr(e, depth + 1, out);
                }
            }
        }
        Primary::Nested(e) => refs_expr(e, depth + 1, out),
        Primary::Ident(_) => {}
    }
}

/// Every package reference in the document, in source order, from the generator's own model.
pub fn references(doc: &Doc) -> Vec<PkgRef> {
    let mut out = vec![];
    if let Some(t) = &doc.targets {
        out.push(path_ref(t, RefKind::Targets, 0));
    }
    for s in &doc.stmts {
        match s {
            Stmt::Import { ty, .. } => match ty {
                ImportTy::Package(p) => out.push(path_ref(p, RefKind::ImportPath, 0)),
                ImportTy::Interface(items) => refs_iface_items(items, 1, &mut out),
                _ => {}
            },
            Stmt::Interface(_, items) => refs_iface_items(items, 1, &mut out),
            Stmt::World(_, items) => {
                for it in items {
                    match it {
                        WorldItem::Use(u) => {
                            if let UsePath::Package(p) = &u.path {
                                out.push(path_ref(p, RefKind::UsePath, 1));
                            }
                        }
                        WorldItem::Import(w) | WorldItem::Export(w) => match w {
                            WPath::Package(p) => out.push(path_ref(p, RefKind::WorldItemPath, 1)),
                            WPath::Named(_, ExternTy::Interface(items)) => refs_iface_items(items, 2, &mut out),
                            _ => {}
                        },
                        WorldItem::Include(WorldRef::Package(p), _) => out.push(path_ref(p, RefKind::Include, 1)),
                        _ => {}
                    }
                }
            }
            Stmt::Type(_) => {}
            Stmt::Let(_, e) | Stmt::Export(e, _) => refs_expr(e, 0, &mut out),
        }
    }
    out
}
