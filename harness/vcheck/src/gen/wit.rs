//! G-wit / G-lib: a model of WIT packages (interfaces with every value-type constructor, resources,
//! `use` chains/diamonds, versions) and of component worlds over them; rendering to WIT text; and
//! building real components with the reference toolchain (`wit-parser` + `wit-component`), the same
//! recipe as the repository's own fixture harness.
//!
//! Generation is "spec -> model": proptest generates index-based specs, `build_*` resolves indices
//! monotonically against what is in scope, so every generated model is valid by construction and
//! shrinks well.

use proptest::prelude::*;
use serde::{Deserialize, Serialize};
use std::collections::BTreeMap;
use std::fmt::Write as _;

pub const PRIMS: &[&str] = &["u8", "s8", "u16", "s16", "u32", "s32", "u64", "s64", "f32", "f64", "char", "bool", "string"];

#[derive(Clone, Debug, Serialize, Deserialize, PartialEq)]
pub enum TySpec {
    Prim(u8),
    List(Box<TySpec>),
    Option(Box<TySpec>),
    Result(Option<Box<TySpec>>, Option<Box<TySpec>>),
    Tuple(Vec<TySpec>),
    /// a named value type in scope (falls back to a primitive if none)
    Ref(u16),
    /// own<resource in scope> (falls back)
    Own(u16),
}

#[derive(Clone, Debug, Serialize, Deserialize, PartialEq)]
pub enum Ty {
    Prim(String),
    List(Box<Ty>),
    Option(Box<Ty>),
    Result(Option<Box<Ty>>, Option<Box<Ty>>),
    Tuple(Vec<Ty>),
    /// reference to a named type (record/variant/enum/flags/alias or a used type) by its local name
    Named(String),
    /// own<r> of a resource by local name
    Own(String),
    /// borrow<r>
    Borrow(String),
}

impl Ty {
    pub fn wit(&self) -> String {
        match self {
            Ty::Prim(p) => p.clone(),
            Ty::List(t) => format!("list<{}>", t.wit()),
            Ty::Option(t) => format!("option<{}>", t.wit()),
            Ty::Result(None, None) => "result".into(),
            Ty::Result(Some(o), None) => format!("result<{}>", o.wit()),
            Ty::Result(None, Some(e)) => format!("result<_, {}>", e.wit()),
            Ty::Result(Some(o), Some(e)) => format!("result<{}, {}>", o.wit(), e.wit()),
            Ty::Tuple(ts) => format!("tuple<{}>", ts.iter().map(|t| t.wit()).collect::<Vec<_>>().join(", ")),
            Ty::Named(n) | Ty::Own(n) => n.clone(),
            Ty::Borrow(n) => format!("borrow<{n}>"),
        }
    }
    pub fn mentions(&self, out: &mut Vec<String>) {
        match self {
            Ty::Prim(_) => {}
            Ty::List(t) | Ty::Option(t) => t.mentions(out),
            Ty::Result(a, b) => {
                if let Some(a) = a {
                    a.mentions(out)
                }
                if let Some(b) = b {
                    b.mentions(out)
                }
            }
            Ty::Tuple(ts) => ts.iter().for_each(|t| t.mentions(out)),
            Ty::Named(n) | Ty::Own(n) | Ty::Borrow(n) => out.push(n.clone()),
        }
    }
}

#[derive(Clone, Debug, Serialize, Deserialize, PartialEq)]
pub struct FuncSig {
    pub params: Vec<(String, Ty)>,
    pub result: Option<Ty>,
}

impl FuncSig {
    pub fn wit(&self) -> String {
        let ps = self.params.iter().map(|(n, t)| format!("{n}: {}", t.wit())).collect::<Vec<_>>().join(", ");
        match &self.result {
            Some(r) => format!("func({ps}) -> {}", r.wit()),
            None => format!("func({ps})"),
        }
    }
}

#[derive(Clone, Debug, Serialize, Deserialize, PartialEq)]
pub enum TypeDef {
    Record(Vec<(String, Ty)>),
    Variant(Vec<(String, Option<Ty>)>),
    Enum(Vec<String>),
    Flags(Vec<String>),
    Alias(Ty),
}

#[derive(Clone, Debug, Serialize, Deserialize, PartialEq)]
pub struct Method {
    pub name: String,
    pub is_static: bool,
    pub sig: FuncSig,
}

#[derive(Clone, Debug, Serialize, Deserialize, PartialEq)]
pub enum Item {
    /// `use <iface path>.{name [as rename], ...};` — `from` is (package index, interface index)
    Use { from: (usize, usize), names: Vec<(String, Option<String>)> },
    Type { name: String, def: TypeDef },
    Resource { name: String, ctor: Option<Vec<(String, Ty)>>, methods: Vec<Method> },
    Func { name: String, sig: FuncSig },
}

#[derive(Clone, Debug, Serialize, Deserialize, PartialEq)]
pub struct Iface {
    pub name: String,
    pub items: Vec<Item>,
    /// local names of `use`d types (name, is_resource): later interfaces may use them from here (chains)
    #[serde(default)]
    pub reexports: Vec<(String, bool)>,
}

impl Iface {
    /// Local names of value types / resources visible at the end of the interface: (name, is_resource).
    pub fn type_names(&self) -> Vec<(String, bool)> {
        let mut out = vec![];
        for it in &self.items {
            match it {
                // a named borrow handle is only usable as a parameter: not offered to `use`
                Item::Type { def: TypeDef::Alias(Ty::Borrow(_)), .. } => {}
                Item::Type { name, .. } => out.push((name.clone(), false)),
                Item::Resource { name, .. } => out.push((name.clone(), true)),
                _ => {}
            }
        }
        out.extend(self.reexports.iter().cloned());
        out
    }
    pub fn func_names(&self) -> Vec<String> {
        self.items.iter().filter_map(|i| if let Item::Func { name, .. } = i { Some(name.clone()) } else { None }).collect()
    }
}

#[derive(Clone, Debug, Serialize, Deserialize, PartialEq)]
pub struct ApiPkg {
    pub ns: String,
    pub name: String,
    pub version: Option<String>,
    pub ifaces: Vec<Iface>,
}

impl ApiPkg {
    pub fn id(&self) -> String {
        match &self.version {
            Some(v) => format!("{}:{}@{v}", self.ns, self.name),
            None => format!("{}:{}", self.ns, self.name),
        }
    }
    pub fn iface_path(&self, i: usize) -> String {
        match &self.version {
            Some(v) => format!("{}:{}/{}@{v}", self.ns, self.name, self.ifaces[i].name),
            None => format!("{}:{}/{}", self.ns, self.name, self.ifaces[i].name),
        }
    }
}

fn render_items(out: &mut String, items: &[Item], pkgs: &[ApiPkg], this_pkg: Option<usize>, indent: &str) {
    for it in items {
        match it {
            Item::Use { from, names } => {
                let path = if Some(from.0) == this_pkg { pkgs[from.0].ifaces[from.1].name.clone() } else { pkgs[from.0].iface_path(from.1) };
                let ns = names.iter().map(|(n, r)| match r { Some(r) => format!("{n} as {r}"), None => n.clone() }).collect::<Vec<_>>().join(", ");
                let _ = writeln!(out, "{indent}use {path}.{{{ns}}};");
            }
            Item::Type { name, def } => match def {
                TypeDef::Record(fs) => {
                    let _ = writeln!(out, "{indent}record {name} {{ {} }}", fs.iter().map(|(n, t)| format!("{n}: {}", t.wit())).collect::<Vec<_>>().join(", "));
                }
                TypeDef::Variant(cs) => {
                    let _ = writeln!(out, "{indent}variant {name} {{ {} }}", cs.iter().map(|(n, t)| match t { Some(t) => format!("{n}({})", t.wit()), None => n.clone() }).collect::<Vec<_>>().join(", "));
                }
                TypeDef::Enum(cs) => {
                    let _ = writeln!(out, "{indent}enum {name} {{ {} }}", cs.join(", "));
                }
                TypeDef::Flags(cs) => {
                    let _ = writeln!(out, "{indent}flags {name} {{ {} }}", cs.join(", "));
                }
                TypeDef::Alias(t) => {
                    let _ = writeln!(out, "{indent}type {name} = {};", t.wit());
                }
            },
            Item::Resource { name, ctor, methods } => {
                let _ = writeln!(out, "{indent}resource {name} {{");
                if let Some(ps) = ctor {
                    let _ = writeln!(out, "{indent}    constructor({});", ps.iter().map(|(n, t)| format!("{n}: {}", t.wit())).collect::<Vec<_>>().join(", "));
                }
                for m in methods {
                    let _ = writeln!(out, "{indent}    {}: {}{};", m.name, if m.is_static { "static " } else { "" }, m.sig.wit());
                }
                let _ = writeln!(out, "{indent}}}");
            }
            Item::Func { name, sig } => {
                let _ = writeln!(out, "{indent}{name}: {};", sig.wit());
            }
        }
    }
}

pub fn render_api(pkgs: &[ApiPkg], k: usize) -> String {
    let p = &pkgs[k];
    let mut out = format!("package {};\n\n", p.id());
    for i in &p.ifaces {
        let _ = writeln!(out, "interface {} {{", i.name);
        render_items(&mut out, &i.items, pkgs, Some(k), "    ");
        out.push_str("}\n\n");
    }
    out
}

// ---------------------------------------------------------------------------------------------
// component worlds

#[derive(Clone, Debug, Serialize, Deserialize, PartialEq)]
pub enum WorldItem {
    ImportIface(usize, usize),
    ExportIface(usize, usize),
    ImportFunc(String, FuncSig),
    ExportFunc(String, FuncSig),
    ImportInline(String, Vec<Item>),
    ExportInline(String, Vec<Item>),
}

#[derive(Clone, Debug, Serialize, Deserialize, PartialEq)]
pub struct Comp {
    /// wac package name, e.g. `test:c0`
    pub name: String,
    pub version: Option<String>,
    pub items: Vec<WorldItem>,
}

pub fn render_world(pkgs: &[ApiPkg], c: &Comp) -> String {
    let mut out = format!("package {}{};\n\nworld w {{\n", c.name, c.version.as_ref().map(|v| format!("@{v}")).unwrap_or_default());
    for it in &c.items {
        match it {
            WorldItem::ImportIface(p, i) => {
                let _ = writeln!(out, "    import {};", pkgs[*p].iface_path(*i));
            }
            WorldItem::ExportIface(p, i) => {
                let _ = writeln!(out, "    export {};", pkgs[*p].iface_path(*i));
            }
            WorldItem::ImportFunc(n, s) => {
                let _ = writeln!(out, "    import {n}: {};", s.wit());
            }
            WorldItem::ExportFunc(n, s) => {
                let _ = writeln!(out, "    export {n}: {};", s.wit());
            }
            WorldItem::ImportInline(n, items) => {
                let _ = writeln!(out, "    import {n}: interface {{");
                render_items(&mut out, items, pkgs, None, "        ");
                out.push_str("    }\n");
            }
            WorldItem::ExportInline(n, items) => {
                let _ = writeln!(out, "    export {n}: interface {{");
                render_items(&mut out, items, pkgs, None, "        ");
                out.push_str("    }\n");
            }
        }
    }
    out.push_str("}\n");
    out
}

/// A library: API packages (possibly several versions of one package) and components over them.
#[derive(Clone, Debug, Serialize, Deserialize, PartialEq)]
pub struct Library {
    pub apis: Vec<ApiPkg>,
    pub comps: Vec<Comp>,
}

#[derive(Clone)]
pub struct BuiltComp {
    pub name: String,
    pub version: Option<semver::Version>,
    pub bytes: Vec<u8>,
    pub wit: String,
}

/// Build every component of the library with the reference toolchain.  `Err` = the reference side
/// rejected generated WIT (a generator bug, never a wac defect).
pub fn build_library(lib: &Library) -> Result<Vec<BuiltComp>, String> {
    build_library_with(lib, true)
}

/// `merge == false` keeps two versions of one interface imported by one world as two imports (the
/// reference encoder otherwise merges them into the higher version).
pub fn build_library_with(lib: &Library, merge: bool) -> Result<Vec<BuiltComp>, String> {
    match crate::engine::guarded(|| build_library_inner(lib, merge)) {
        Ok(r) => r,
        Err(p) => Err(format!("reference toolchain panicked: {p}")),
    }
}

fn build_library_inner(lib: &Library, merge: bool) -> Result<Vec<BuiltComp>, String> {
    let api_texts: Vec<String> = (0..lib.apis.len()).map(|k| render_api(&lib.apis, k)).collect();
    let mut out = vec![];
    for c in &lib.comps {
        let wit = render_world(&lib.apis, c);
        let bytes = build_component_with(&api_texts, &wit, merge).map_err(|e| format!("{e}\n--- world ---\n{wit}\n--- apis ---\n{}", api_texts.join("\n")))?;
        out.push(BuiltComp { name: c.name.clone(), version: c.version.as_ref().map(|v| semver::Version::parse(v).unwrap()), bytes, wit });
    }
    Ok(out)
}

pub fn build_component(api_texts: &[String], world_wit: &str) -> Result<Vec<u8>, String> {
    build_component_with(api_texts, world_wit, true)
}

pub fn build_component_with(api_texts: &[String], world_wit: &str, merge: bool) -> Result<Vec<u8>, String> {
    let mut resolve = wit_parser::Resolve::default();
    for (i, t) in api_texts.iter().enumerate() {
        resolve.push_str(format!("api{i}.wit"), t).map_err(|e| format!("wit-parser rejected api package {i}: {e:#}"))?;
    }
    let pkg = resolve.push_str("world.wit", world_wit).map_err(|e| format!("wit-parser rejected world: {e:#}"))?;
    let world = resolve.select_world(&[pkg], None).map_err(|e| format!("select_world: {e:#}"))?;
    let mut module = wit_component::dummy_module(&resolve, world, wit_parser::ManglingAndAbi::Legacy(wit_parser::LiftLowerAbi::Sync));
    wit_component::embed_component_metadata(&mut module, &resolve, world, wit_component::StringEncoding::default()).map_err(|e| format!("embed metadata: {e:#}"))?;
    let mut encoder = wit_component::ComponentEncoder::default().validate(true).merge_imports_based_on_semver(merge).module(&module).map_err(|e| format!("encoder.module: {e:#}"))?;
    encoder.encode().map_err(|e| format!("component encode: {e:#}"))
}

/// Encode an API package as a WIT package component (what `wac` loads for `targets` / type imports).
pub fn build_wit_package(api_texts: &[String], k: usize) -> Result<Vec<u8>, String> {
    let mut resolve = wit_parser::Resolve::default();
    let mut id = None;
    for (i, t) in api_texts.iter().enumerate().take(k + 1) {
        let p = resolve.push_str(format!("api{i}.wit"), t).map_err(|e| format!("wit-parser rejected api package {i}: {e:#}"))?;
        if i == k {
            id = Some(p);
        }
    }
    wit_component::encode(&resolve, id.unwrap()).map_err(|e| format!("wit_component::encode: {e:#}"))
}

// ---------------------------------------------------------------------------------------------
// spec -> model

#[derive(Clone, Debug, Serialize, Deserialize, PartialEq)]
pub enum ItemSpec {
    Use { from: u16, picks: Vec<(u16, bool)> },
    Record(Vec<TySpec>),
    Variant(Vec<Option<TySpec>>),
    Enum(u8),
    Flags(u8),
    Alias(TySpec),
    Resource { ctor: Option<Vec<TySpec>>, methods: Vec<(bool, Vec<TySpec>, Option<TySpec>, bool)> },
    Func { params: Vec<TySpec>, result: Option<TySpec>, borrow_first: bool },
}

#[derive(Clone, Debug, Serialize, Deserialize, PartialEq)]
pub struct IfaceSpec {
    pub items: Vec<ItemSpec>,
}

fn pick(raw: u16, len: usize) -> usize {
    (raw as usize * len) >> 16
}

/// Scope while building an interface: named value types and resources visible so far.
#[derive(Default, Clone)]
struct Scope {
    values: Vec<String>,
    resources: Vec<String>,
    /// names of `type h = borrow<r>` aliases (only usable as function parameters)
    borrow_aliases: Vec<String>,
}

fn build_ty(s: &TySpec, sc: &Scope, allow_own: bool) -> Ty {
    match s {
        TySpec::Prim(p) => Ty::Prim(PRIMS[*p as usize % PRIMS.len()].to_string()),
        TySpec::List(t) => Ty::List(Box::new(build_ty(t, sc, allow_own))),
        TySpec::Option(t) => Ty::Option(Box::new(build_ty(t, sc, allow_own))),
        TySpec::Result(a, b) => Ty::Result(a.as_ref().map(|t| Box::new(build_ty(t, sc, allow_own))), b.as_ref().map(|t| Box::new(build_ty(t, sc, allow_own)))),
        TySpec::Tuple(ts) => {
            if ts.is_empty() {
                Ty::Prim("u8".into())
            } else {
                Ty::Tuple(ts.iter().map(|t| build_ty(t, sc, allow_own)).collect())
            }
        }
        TySpec::Ref(i) => {
            if sc.values.is_empty() {
                Ty::Prim("u32".into())
            } else {
                Ty::Named(sc.values[pick(*i, sc.values.len())].clone())
            }
        }
        TySpec::Own(i) => {
            if sc.resources.is_empty() || !allow_own {
                Ty::Prim("string".into())
            } else {
                Ty::Own(sc.resources[pick(*i, sc.resources.len())].clone())
            }
        }
    }
}

/// Build one interface. `earlier` = interfaces (pkg index, iface index, exported type names with
/// is_resource flag) that may be `use`d.  `tag` makes names unique across the universe.
pub fn build_iface(name: &str, tag: &str, spec: &IfaceSpec, earlier: &[((usize, usize), Vec<(String, bool)>)]) -> Iface {
    let mut sc = Scope::default();
    let mut items = vec![];
    let mut taken: std::collections::BTreeSet<String> = Default::default();
    let mut used_from: std::collections::BTreeSet<(usize, usize)> = Default::default();
    let mut reexports: Vec<(String, bool)> = vec![];
    for (k, it) in spec.items.iter().enumerate() {
        match it {
            ItemSpec::Use { from, picks } => {
                if earlier.is_empty() {
                    continue;
                }
                let (src, names) = &earlier[pick(*from, earlier.len())];
                if names.is_empty() || !used_from.insert(*src) {
                    continue;
                }
                let mut out = vec![];
                let mut seen = std::collections::BTreeSet::new();
                for (p, rename) in picks {
                    let (n, is_res) = &names[pick(*p, names.len())];
                    if !seen.insert(n.clone()) {
                        continue;
                    }
                    let local = if *rename { format!("{n}r{k}") } else { n.clone() };
                    if !taken.insert(local.clone()) {
                        continue;
                    }
                    if *is_res {
                        sc.resources.push(local.clone());
                    } else {
                        sc.values.push(local.clone());
                    }
                    reexports.push((local.clone(), *is_res));
                    out.push((n.clone(), if *rename { Some(local) } else { None }));
                }
                if !out.is_empty() {
                    items.push(Item::Use { from: *src, names: out });
                }
            }
            ItemSpec::Record(fs) => {
                let name = format!("rec{tag}x{k}");
                let fields: Vec<_> = fs.iter().enumerate().map(|(i, t)| (format!("f{i}"), build_ty(t, &sc, true))).collect();
                let fields = if fields.is_empty() { vec![("f0".to_string(), Ty::Prim("u8".into()))] } else { fields };
                taken.insert(name.clone());
                items.push(Item::Type { name: name.clone(), def: TypeDef::Record(fields) });
                sc.values.push(name);
            }
            ItemSpec::Variant(cs) => {
                let name = format!("var{tag}x{k}");
                let cases: Vec<_> = cs.iter().enumerate().map(|(i, t)| (format!("c{i}"), t.as_ref().map(|t| build_ty(t, &sc, true)))).collect();
                let cases = if cases.is_empty() { vec![("c0".to_string(), None)] } else { cases };
                taken.insert(name.clone());
                items.push(Item::Type { name: name.clone(), def: TypeDef::Variant(cases) });
                sc.values.push(name);
            }
            ItemSpec::Enum(n) => {
                let name = format!("enm{tag}x{k}");
                taken.insert(name.clone());
                items.push(Item::Type { name: name.clone(), def: TypeDef::Enum((0..(*n % 4 + 1)).map(|i| format!("e{i}")).collect()) });
                sc.values.push(name);
            }
            ItemSpec::Flags(n) => {
                let name = format!("flg{tag}x{k}");
                taken.insert(name.clone());
                items.push(Item::Type { name: name.clone(), def: TypeDef::Flags((0..(*n % 4 + 1)).map(|i| format!("b{i}")).collect()) });
                sc.values.push(name);
            }
            ItemSpec::Alias(t) => {
                let name = format!("als{tag}x{k}");
                taken.insert(name.clone());
                // every other alias of a resource handle is a named borrow handle
                if let (TySpec::Own(i), false) = (t, sc.resources.is_empty()) {
                    if i % 2 == 1 {
                        let r = sc.resources[pick(*i, sc.resources.len())].clone();
                        items.push(Item::Type { name: name.clone(), def: TypeDef::Alias(Ty::Borrow(r)) });
                        sc.borrow_aliases.push(name);
                        continue;
                    }
                }
                items.push(Item::Type { name: name.clone(), def: TypeDef::Alias(build_ty(t, &sc, true)) });
                sc.values.push(name);
            }
            ItemSpec::Resource { ctor, methods } => {
                let name = format!("res{tag}x{k}");
                taken.insert(name.clone());
                sc.resources.push(name.clone());
                let ctor = ctor.as_ref().map(|ps| ps.iter().enumerate().map(|(i, t)| (format!("p{i}"), build_ty(t, &sc, true))).collect());
                let methods = methods
                    .iter()
                    .enumerate()
                    .map(|(i, (is_static, ps, r, borrow_param))| {
                        let mut params: Vec<(String, Ty)> = ps.iter().enumerate().map(|(j, t)| (format!("p{j}"), build_ty(t, &sc, true))).collect();
                        if *borrow_param {
                            params.push((format!("pb{}", params.len()), Ty::Borrow(name.clone())));
                        }
                        Method { name: format!("m{i}"), is_static: *is_static, sig: FuncSig { params, result: r.as_ref().map(|t| build_ty(t, &sc, true)) } }
                    })
                    .collect();
                items.push(Item::Resource { name, ctor, methods });
            }
            ItemSpec::Func { params, result, borrow_first } => {
                let name = format!("fn{tag}x{k}");
                let mut ps: Vec<(String, Ty)> = params.iter().enumerate().map(|(j, t)| (format!("p{j}"), build_ty(t, &sc, true))).collect();
                if *borrow_first && !sc.borrow_aliases.is_empty() && k % 2 == 1 {
                    ps.insert(0, ("pb".to_string(), Ty::Named(sc.borrow_aliases[0].clone())));
                } else if *borrow_first && !sc.resources.is_empty() {
                    ps.insert(0, ("pb".to_string(), Ty::Borrow(sc.resources[0].clone())));
                }
                items.push(Item::Func { name, sig: FuncSig { params: ps, result: result.as_ref().map(|t| build_ty(t, &sc, true)) } });
            }
        }
    }
    Iface { name: name.to_string(), items, reexports }
}

pub fn tyspec_strategy() -> impl Strategy<Value = TySpec> {
    let leaf = prop_oneof![
        6 => any::<u8>().prop_map(TySpec::Prim),
        4 => any::<u16>().prop_map(TySpec::Ref),
        2 => any::<u16>().prop_map(TySpec::Own),
        1 => Just(TySpec::Result(None, None)),
    ];
    leaf.prop_recursive(2, 8, 3, |inner| {
        prop_oneof![
            inner.clone().prop_map(|t| TySpec::List(Box::new(t))),
            inner.clone().prop_map(|t| TySpec::Option(Box::new(t))),
            inner.clone().prop_map(|t| TySpec::Result(Some(Box::new(t)), None)),
            inner.clone().prop_map(|t| TySpec::Result(None, Some(Box::new(t)))),
            (inner.clone(), inner.clone()).prop_map(|(a, b)| TySpec::Result(Some(Box::new(a)), Some(Box::new(b)))),
            proptest::collection::vec(inner, 1..3).prop_map(TySpec::Tuple),
        ]
    })
}

pub fn itemspec_strategy() -> impl Strategy<Value = ItemSpec> {
    prop_oneof![
        3 => (any::<u16>(), proptest::collection::vec((any::<u16>(), proptest::bool::weighted(0.3)), 1..3)).prop_map(|(from, picks)| ItemSpec::Use { from, picks }),
        3 => proptest::collection::vec(tyspec_strategy(), 1..4).prop_map(ItemSpec::Record),
        2 => proptest::collection::vec(proptest::option::of(tyspec_strategy()), 1..4).prop_map(ItemSpec::Variant),
        1 => any::<u8>().prop_map(ItemSpec::Enum),
        1 => any::<u8>().prop_map(ItemSpec::Flags),
        2 => tyspec_strategy().prop_map(ItemSpec::Alias),
        2 => (
            proptest::option::of(proptest::collection::vec(tyspec_strategy(), 0..3)),
            proptest::collection::vec((any::<bool>(), proptest::collection::vec(tyspec_strategy(), 0..3), proptest::option::of(tyspec_strategy()), proptest::bool::weighted(0.3)), 0..3)
        )
            .prop_map(|(ctor, methods)| ItemSpec::Resource { ctor, methods }),
        5 => (proptest::collection::vec(tyspec_strategy(), 0..3), proptest::option::of(tyspec_strategy()), proptest::bool::weighted(0.3)).prop_map(|(params, result, borrow_first)| ItemSpec::Func { params, result, borrow_first }),
    ]
}

pub fn ifacespec_strategy(max_items: usize) -> impl Strategy<Value = IfaceSpec> {
    proptest::collection::vec(itemspec_strategy(), 1..max_items).prop_map(|items| IfaceSpec { items })
}

#[derive(Clone, Debug, Serialize, Deserialize, PartialEq)]
pub struct ApiSpec {
    pub ifaces: Vec<IfaceSpec>,
}

/// How API package versions relate: the base package at `version`, plus derived versions that add
/// functions (compatible width) or change a function (conflict).
#[derive(Clone, Debug, Serialize, Deserialize, PartialEq)]
pub struct LibSpec {
    pub api: ApiSpec,
    /// 0: unversioned; otherwise index into VERSION_SETS
    pub versions: u8,
    pub comps: Vec<CompSpec>,
}

#[derive(Clone, Debug, Serialize, Deserialize, PartialEq)]
pub struct CompSpec {
    /// (which api version, which interface, import?/export?)
    pub ifaces: Vec<(u16, u16, bool)>,
    pub funcs: Vec<(bool, Vec<TySpec>, Option<TySpec>)>,
    pub inline: Vec<(bool, IfaceSpec)>,
    pub versioned: bool,
}

/// Version sets for the API package: every entry is a list of versions that will all exist.
pub const VERSION_SETS: &[&[&str]] = &[
    &[],
    &["0.2.0"],
    &["0.2.0", "0.2.1"],
    &["0.2.0", "0.2.3", "0.3.0"],
    &["1.0.0", "1.2.0", "2.0.0"],
    &["0.1.0", "0.1.1", "0.1.2"],
    &["1.0.0", "1.0.1-rc.1"],
    &["0.0.1", "0.0.2"],
];

/// Build the API packages: one `ApiPkg` per version; later versions on the same package get one
/// extra function per interface (so merged imports are a strict union), types unchanged.
pub fn build_apis(spec: &ApiSpec, versions: &[&str]) -> Vec<ApiPkg> {
    let mut base_ifaces: Vec<Iface> = vec![];
    let mut earlier: Vec<((usize, usize), Vec<(String, bool)>)> = vec![];
    for (i, s) in spec.ifaces.iter().enumerate() {
        let iface = build_iface(&format!("i{i}"), &format!("{i}"), s, &earlier);
        earlier.push(((0, i), iface.type_names()));
        base_ifaces.push(iface);
    }
    if versions.is_empty() {
        return vec![ApiPkg { ns: "lib".into(), name: "api".into(), version: None, ifaces: base_ifaces }];
    }
    let mut out = vec![];
    for (k, v) in versions.iter().enumerate() {
        let mut ifaces = base_ifaces.clone();
        for (i, iface) in ifaces.iter_mut().enumerate() {
            // re-point `use`s at this version's package index
            for it in iface.items.iter_mut() {
                if let Item::Use { from, .. } = it {
                    from.0 = k;
                }
            }
            for extra in 0..k {
                iface.items.push(Item::Func { name: format!("extra{i}v{extra}"), sig: FuncSig { params: vec![("a".into(), Ty::Prim("u32".into()))], result: None } });
            }
        }
        out.push(ApiPkg { ns: "lib".into(), name: "api".into(), version: Some(v.to_string()), ifaces });
    }
    out
}

pub fn build_lib(spec: &LibSpec) -> Library {
    let versions = VERSION_SETS[spec.versions as usize % VERSION_SETS.len()];
    let apis = build_apis(&spec.api, versions);
    let mut comps = vec![];
    for (ci, c) in spec.comps.iter().enumerate() {
        let mut items = vec![];
        let mut seen_imp = std::collections::BTreeSet::new();
        let mut seen_exp = std::collections::BTreeSet::new();
        for (pv, ii, import) in &c.ifaces {
            let p = pick(*pv, apis.len());
            if apis[p].ifaces.is_empty() {
                continue;
            }
            let i = pick(*ii, apis[p].ifaces.len());
            // one version of an interface per direction per component (wit-parser rejects duplicates by name only,
            // but two versions of one interface in one world are legal; allow them)
            if *import {
                if seen_imp.insert((p, i)) {
                    items.push(WorldItem::ImportIface(p, i));
                }
            } else if seen_exp.insert((p, i)) {
                items.push(WorldItem::ExportIface(p, i));
            }
        }
        let empty = Scope::default();
        for (k, (import, ps, r)) in c.funcs.iter().enumerate() {
            let sig = FuncSig { params: ps.iter().enumerate().map(|(j, t)| (format!("p{j}"), build_ty(t, &empty, false))).collect(), result: r.as_ref().map(|t| build_ty(t, &empty, false)) };
            if *import {
                items.push(WorldItem::ImportFunc(format!("f{k}"), sig));
            } else {
                items.push(WorldItem::ExportFunc(format!("g{k}"), sig));
            }
        }
        for (k, (import, s)) in c.inline.iter().enumerate() {
            // inline interfaces cannot `use` (keeps names local); drop Use items
            let s2 = IfaceSpec { items: s.items.iter().filter(|i| !matches!(i, ItemSpec::Use { .. })).cloned().collect() };
            let iface = build_iface("inline", &format!("n{ci}n{k}"), &s2, &[]);
            if iface.items.is_empty() {
                continue;
            }
            if *import {
                items.push(WorldItem::ImportInline(format!("in{k}"), iface.items));
            } else {
                items.push(WorldItem::ExportInline(format!("out{k}"), iface.items));
            }
        }
        comps.push(Comp { name: format!("test:c{ci}"), version: if c.versioned { Some(format!("1.{ci}.0")) } else { None }, items });
    }
    Library { apis, comps }
}

pub fn compspec_strategy() -> impl Strategy<Value = CompSpec> {
    (
        proptest::collection::vec((any::<u16>(), any::<u16>(), any::<bool>()), 0..5),
        proptest::collection::vec((any::<bool>(), proptest::collection::vec(tyspec_strategy(), 0..3), proptest::option::of(tyspec_strategy())), 0..3),
        proptest::collection::vec((any::<bool>(), ifacespec_strategy(4)), 0..2),
        proptest::bool::weighted(0.25),
    )
        .prop_map(|(ifaces, funcs, inline, versioned)| CompSpec { ifaces, funcs, inline, versioned })
}

pub fn libspec_strategy(max_comps: usize) -> impl Strategy<Value = LibSpec> {
    (proptest::collection::vec(ifacespec_strategy(6), 1..5), any::<u8>(), proptest::collection::vec(compspec_strategy(), 1..max_comps))
        .prop_map(|(ifaces, versions, comps)| LibSpec { api: ApiSpec { ifaces }, versions, comps })
}

/// Labels describing what a library contains (used for classification floors).
pub fn lib_features(lib: &Library) -> Vec<&'static str> {
    let mut f = BTreeMap::new();
    for a in &lib.apis {
        if a.version.is_some() {
            f.insert("versioned-interfaces", ());
        }
        for i in &a.ifaces {
            for it in &i.items {
                match it {
                    Item::Use { names, .. } => {
                        f.insert("cross-interface-use", ());
                        if names.iter().any(|(_, r)| r.is_some()) {
                            f.insert("use-rename", ());
                        }
                    }
                    Item::Resource { .. } => {
                        f.insert("resources", ());
                    }
                    Item::Type { def, .. } => {
                        f.insert(
                            match def {
                                TypeDef::Record(_) => "records",
                                TypeDef::Variant(_) => "variants",
                                TypeDef::Enum(_) => "enums",
                                TypeDef::Flags(_) => "flags",
                                TypeDef::Alias(_) => "aliases",
                            },
                            (),
                        );
                    }
                    Item::Func { .. } => {}
                }
            }
        }
    }
    if lib.apis.len() >= 2 {
        f.insert("several-api-versions", ());
    }
    for c in &lib.comps {
        for it in &c.items {
            match it {
                WorldItem::ImportInline(..) | WorldItem::ExportInline(..) => {
                    f.insert("inline-interfaces", ());
                }
                WorldItem::ImportFunc(..) | WorldItem::ExportFunc(..) => {
                    f.insert("bare-funcs", ());
                }
                _ => {}
            }
        }
    }
    f.into_keys().collect()
}
