//! The shared engine: sharded, seeded proptest generation, manual shrinking,
//! classification counters, known-finding handling, evidence and replay files.
//!
//! A run is a pure function of (tree under /repo, VERIF_SEED, tier).

use proptest::strategy::{Strategy, ValueTree};
use proptest::test_runner::{Config, RngAlgorithm, RngSeed, TestRng, TestRunner};
use serde::{de::DeserializeOwned, Serialize};
use serde_json::{json, Value};
use sha2::{Digest, Sha256};
use std::cell::RefCell;
use std::collections::{BTreeMap, BTreeSet, HashSet};
use std::panic::{catch_unwind, AssertUnwindSafe};
use std::path::{Path, PathBuf};
use std::sync::Mutex;
use std::time::Instant;

pub const VERIF_ROOT: &str = "/verif";

#[derive(Clone, Copy, Debug, PartialEq, Eq)]
pub enum Tier {
    Quick,
    Thorough,
}

impl Tier {
    pub fn name(self) -> &'static str {
        match self {
            Tier::Quick => "quick",
            Tier::Thorough => "thorough",
        }
    }
    pub fn pick<T>(self, q: T, t: T) -> T {
        match self {
            Tier::Quick => q,
            Tier::Thorough => t,
        }
    }
}

/// What one executed case reports back to the engine.
#[derive(Debug, Clone)]
pub enum Verdict {
    /// Property held on this case.
    Pass,
    /// Property violated. `sig` is a stable signature of *what* failed (used to
    /// match known findings and to keep shrinking on the same failure).
    Fail { sig: String, msg: String },
    /// wac failed an obligation belonging to another property (counted, skipped).
    Foreign(String),
    /// The reference side rejected a generated input (harness problem, never a violation).
    GenInvalid(String),
    /// Landed in a documented tolerance set.
    Tolerated(&'static str),
}

#[derive(Debug, Clone)]
pub struct Outcome {
    pub verdict: Verdict,
    pub labels: Vec<String>,
    pub nontrivial: bool,
    /// Number of individual comparisons made in this case (for translation-validation style evidence).
    pub comparisons: u64,
    /// Extra rendered detail of the case for samples (e.g. the text of the document).
    pub rendered: Option<Value>,
}

impl Outcome {
    pub fn pass() -> Self {
        Outcome {
            verdict: Verdict::Pass,
            labels: vec![],
            nontrivial: false,
            comparisons: 0,
            rendered: None,
        }
    }
    pub fn fail(sig: impl Into<String>, msg: impl Into<String>) -> Self {
        Outcome {
            verdict: Verdict::Fail {
                sig: sig.into(),
                msg: msg.into(),
            },
            ..Self::pass()
        }
    }
    pub fn foreign(msg: impl Into<String>) -> Self {
        Outcome {
            verdict: Verdict::Foreign(msg.into()),
            ..Self::pass()
        }
    }
    pub fn gen_invalid(msg: impl Into<String>) -> Self {
        Outcome {
            verdict: Verdict::GenInvalid(msg.into()),
            ..Self::pass()
        }
    }
    pub fn label(mut self, l: impl Into<String>) -> Self {
        self.labels.push(l.into());
        self
    }
    pub fn labels<I: IntoIterator<Item = S>, S: Into<String>>(mut self, it: I) -> Self {
        self.labels.extend(it.into_iter().map(Into::into));
        self
    }
    pub fn nontrivial(mut self, b: bool) -> Self {
        self.nontrivial = b;
        self
    }
    pub fn comparisons(mut self, n: u64) -> Self {
        self.comparisons = n;
        self
    }
    pub fn rendered(mut self, v: Value) -> Self {
        self.rendered = Some(v);
        self
    }
    pub fn with_verdict(mut self, v: Verdict) -> Self {
        self.verdict = v;
        self
    }
    pub fn is_fail(&self) -> bool {
        matches!(self.verdict, Verdict::Fail { .. })
    }
}

// ---------------------------------------------------------------------------------------------
// panic capture

thread_local! {
    static LAST_PANIC: RefCell<Option<String>> = const { RefCell::new(None) };
}

pub fn install_quiet_panic_hook() {
    std::panic::set_hook(Box::new(|info| {
        let loc = info
            .location()
            .map(|l| format!("{}:{}", l.file(), l.line()))
            .unwrap_or_default();
        let msg = if let Some(s) = info.payload().downcast_ref::<&str>() {
            s.to_string()
        } else if let Some(s) = info.payload().downcast_ref::<String>() {
            s.clone()
        } else {
            "<non-string panic>".to_string()
        };
        LAST_PANIC.with(|p| *p.borrow_mut() = Some(format!("{msg} @ {loc}")));
    }));
}

/// Run `f`, turning a panic into `Err("message @ file:line")`.
pub fn guarded<T>(f: impl FnOnce() -> T) -> Result<T, String> {
    LAST_PANIC.with(|p| *p.borrow_mut() = None);
    match catch_unwind(AssertUnwindSafe(f)) {
        Ok(v) => Ok(v),
        Err(_) => Err(LAST_PANIC
            .with(|p| p.borrow_mut().take())
            .unwrap_or_else(|| "<panic>".into())),
    }
}

/// `file.rs:LINE`-independent signature of a panic message: the source file of the panic site and
/// the message with digits and quoted/backticked payloads blanked.
pub fn panic_sig(p: &str) -> String {
    let (msg, loc) = match p.rsplit_once(" @ ") {
        Some((m, l)) => (m, l),
        None => (p, ""),
    };
    let file = loc.rsplit_once(':').map(|x| x.0).unwrap_or(loc);
    let file = file.rsplit('/').next().unwrap_or(file);
    let mut out = String::new();
    let mut in_tick = false;
    for c in msg.chars().take(80) {
        if c == '`' {
            in_tick = !in_tick;
            out.push('`');
            continue;
        }
        if in_tick {
            continue;
        }
        if c.is_ascii_digit() {
            if !out.ends_with('#') {
                out.push('#');
            }
        } else if c == '\n' {
            break;
        } else {
            out.push(c);
        }
    }
    format!("{file}:{}", out.trim())
}

// ---------------------------------------------------------------------------------------------
// known findings

#[derive(Debug, Clone, serde::Deserialize)]
pub struct KnownFinding {
    pub property: String,
    pub key: String,
    pub status: String,
    #[serde(default)]
    pub commit: Option<String>,
    pub what: String,
}

pub fn load_known(property: &str) -> Vec<KnownFinding> {
    let p = Path::new(VERIF_ROOT).join("known_findings.json");
    let Ok(text) = std::fs::read_to_string(&p) else {
        return vec![];
    };
    let all: Vec<KnownFinding> = serde_json::from_str(&text).expect("known_findings.json is malformed");
    all.into_iter()
        .filter(|k| k.property == property && k.status == "known")
        .collect()
}

// ---------------------------------------------------------------------------------------------
// run state

pub fn splitmix(mut x: u64) -> u64 {
    x = x.wrapping_add(0x9E3779B97F4A7C15);
    let mut z = x;
    z = (z ^ (z >> 30)).wrapping_mul(0xBF58476D1CE4E5B9);
    z = (z ^ (z >> 27)).wrapping_mul(0x94D049BB133111EB);
    z ^ (z >> 31)
}

pub fn runner_for(seed: u64, stream: u64) -> TestRunner {
    let s = splitmix(seed ^ splitmix(stream.wrapping_mul(0x1234_5678_9abc_def1)));
    let mut bytes = [0u8; 32];
    for i in 0..4 {
        bytes[i * 8..i * 8 + 8].copy_from_slice(&splitmix(s.wrapping_add(i as u64)).to_le_bytes());
    }
    let cfg = Config {
        failure_persistence: None,
        rng_seed: RngSeed::Fixed(s),
        ..Config::default()
    };
    TestRunner::new_with_rng(cfg, TestRng::from_seed(RngAlgorithm::ChaCha, &bytes))
}

pub fn hash_value(v: &Value) -> u64 {
    let s = serde_json::to_vec(v).unwrap();
    let d = Sha256::digest(&s);
    u64::from_le_bytes(d[..8].try_into().unwrap())
}

pub fn sha_hex(bytes: &[u8]) -> String {
    hex::encode(Sha256::digest(bytes))
}

#[derive(Default)]
struct Counters {
    evaluations: u64,
    nontrivial_hashes: HashSet<u64>,
    all_hashes: HashSet<u64>,
    labels: BTreeMap<String, u64>,
    comparisons: u64,
    tolerated: BTreeMap<String, u64>,
    known_hits: BTreeMap<String, u64>,
    known_examples: BTreeMap<String, Value>,
    foreign: u64,
    foreign_examples: Vec<String>,
    gen_invalid: u64,
    gen_invalid_examples: Vec<String>,
    samples_first: Vec<Value>,
    samples_nontrivial: Vec<Value>,
    violations: Vec<(String, String, Value, Option<Value>)>, // sig, msg, case, rendered
    extra: BTreeMap<String, Value>,
}

pub struct Run {
    pub id: &'static str,
    pub tier: Tier,
    pub seed: u64,
    pub level: &'static str,
    pub rule: String,
    pub assumptions: Vec<String>,
    pub exhaustive: Option<bool>,
    pub explanation: Option<String>,
    known: Vec<KnownFinding>,
    started: Instant,
    c: Mutex<Counters>,
    /// Labels that must reach a floor, else the run is reported as broken (exit 2).
    pub floors: Vec<(String, u64)>,
    pub strict_replay: bool,
}

pub const MAX_SHRINK_ITERS: usize = 1500;

impl Run {
    pub fn new(id: &'static str, tier: Tier, seed: u64, level: &'static str, rule: &str) -> Self {
        Run {
            id,
            tier,
            seed,
            level,
            rule: rule.to_string(),
            assumptions: vec![],
            exhaustive: None,
            explanation: None,
            known: load_known(id),
            started: Instant::now(),
            c: Mutex::new(Counters::default()),
            floors: vec![],
            strict_replay: false,
        }
    }

    pub fn assume(&mut self, s: &str) {
        self.assumptions.push(s.to_string());
    }

    pub fn floor(&mut self, label: &str, n: u64) {
        self.floors.push((label.to_string(), n));
    }

    pub fn set_extra(&self, k: &str, v: Value) {
        self.c.lock().unwrap().extra.insert(k.to_string(), v);
    }

    pub fn is_known(&self, sig: &str) -> Option<&KnownFinding> {
        self.known.iter().find(|k| glob_match(&k.key, sig))
    }

    pub fn has_violation(&self) -> bool {
        !self.c.lock().unwrap().violations.is_empty()
    }

    /// Record an outcome for a case (already executed).  Returns true if it is an
    /// unlisted violation.
    pub fn record(&self, case: &Value, out: &Outcome) -> bool {
        let mut c = self.c.lock().unwrap();
        c.evaluations += 1;
        c.comparisons += out.comparisons;
        for l in &out.labels {
            *c.labels.entry(l.clone()).or_default() += 1;
        }
        let h = hash_value(case);
        let sample = || match &out.rendered {
            Some(r) => json!({"case": case, "rendered": r, "labels": out.labels}),
            None => json!({"case": case, "labels": out.labels}),
        };
        match &out.verdict {
            Verdict::Pass => {
                let fresh = c.all_hashes.insert(h);
                if fresh && c.samples_first.len() < 3 {
                    let s = sample();
                    c.samples_first.push(s);
                }
                if out.nontrivial && c.nontrivial_hashes.insert(h) {
                    let n = c.nontrivial_hashes.len();
                    // a few spread-out non-trivial samples
                    if c.samples_nontrivial.len() < 5 && (n == 1 || n % 97 == 0 || n == 10) {
                        let s = sample();
                        c.samples_nontrivial.push(s);
                    }
                }
                false
            }
            Verdict::Tolerated(t) => {
                *c.tolerated.entry(t.to_string()).or_default() += 1;
                false
            }
            Verdict::Foreign(m) => {
                c.foreign += 1;
                if c.foreign_examples.len() < 5 {
                    c.foreign_examples.push(m.clone());
                }
                false
            }
            Verdict::GenInvalid(m) => {
                c.gen_invalid += 1;
                if c.gen_invalid_examples.len() < 5 {
                    c.gen_invalid_examples.push(m.clone());
                }
                false
            }
            Verdict::Fail { sig, msg } => {
                if let (false, Some(k)) = (self.strict_replay, self.is_known(sig)) {
                    let sig = &k.key;
                    *c.known_hits.entry(sig.clone()).or_default() += 1;
                    c.known_examples
                        .entry(sig.clone())
                        .or_insert_with(|| json!({"case": case, "msg": msg, "rendered": out.rendered}));
                    // A known finding is still an explored, non-trivial case.
                    c.nontrivial_hashes.insert(h);
                    false
                } else {
                    c.violations
                        .push((sig.clone(), msg.clone(), case.clone(), out.rendered.clone()));
                    true
                }
            }
        }
    }

    /// Generate `cases` cases per shard over `shards` threads from `strategy`, run `f` on each
    /// (under a panic guard: a panic that `f` did not itself attribute becomes a failure with
    /// signature `panic:<site>`), shrink the first unlisted failure of a shard.
    pub fn explore<S, T, F, M>(&self, stream: u64, shards: usize, cases_per_shard: usize, make: M, f: F)
    where
        M: Fn() -> S + Sync,
        S: Strategy<Value = T>,
        T: Serialize + std::fmt::Debug + Clone,
        F: Fn(&T) -> Outcome + Sync,
    {
        let run_one = |t: &T| -> Outcome {
            match guarded(|| f(t)) {
                Ok(o) => o,
                Err(p) => Outcome::fail(format!("panic:{}", panic_sig(&p)), format!("harness-visible panic: {p}")),
            }
        };
        std::thread::scope(|scope| {
            for shard in 0..shards {
                let make = &make;
                let run_one = &run_one;
                scope.spawn(move || {
                    let strategy = make();
                    let mut runner = runner_for(self.seed, stream.wrapping_mul(1000).wrapping_add(shard as u64));
                    for _ in 0..cases_per_shard {
                        if self.has_violation() {
                            return;
                        }
                        let mut tree = match strategy.new_tree(&mut runner) {
                            Ok(t) => t,
                            Err(_) => continue,
                        };
                        let cur = tree.current();
                        let out = run_one(&cur);
                        let unlisted = match &out.verdict {
                            Verdict::Fail { sig, .. } => self.strict_replay || self.is_known(sig).is_none(),
                            _ => false,
                        };
                        if !unlisted {
                            self.record(&serde_json::to_value(&cur).unwrap(), &out);
                            continue;
                        }
                        // shrink on "still an unlisted failure"
                        let mut best = (cur, out);
                        let mut iters = 0usize;
                        if tree.simplify() {
                            loop {
                                iters += 1;
                                if iters > MAX_SHRINK_ITERS {
                                    break;
                                }
                                let cur = tree.current();
                                let out = run_one(&cur);
                                let still = match &out.verdict {
                                    Verdict::Fail { sig, .. } => self.strict_replay || self.is_known(sig).is_none(),
                                    _ => false,
                                };
                                if still {
                                    best = (cur, out);
                                    if !tree.simplify() {
                                        break;
                                    }
                                } else if !tree.complicate() {
                                    break;
                                }
                            }
                        }
                        self.record(&serde_json::to_value(&best.0).unwrap(), &best.1);
                        return;
                    }
                });
            }
        });
    }

    /// Enumerate explicitly (exhaustive tiers). Sharded by index modulo.
    pub fn enumerate<T, F>(&self, items: &[T], f: F)
    where
        T: Serialize + Sync,
        F: Fn(&T) -> Outcome + Sync,
    {
        let shards = 16usize;
        std::thread::scope(|scope| {
            for shard in 0..shards {
                let f = &f;
                scope.spawn(move || {
                    for (i, it) in items.iter().enumerate() {
                        if i % shards != shard {
                            continue;
                        }
                        if self.has_violation() {
                            return;
                        }
                        let out = match guarded(|| f(it)) {
                            Ok(o) => o,
                            Err(p) => Outcome::fail(format!("panic:{}", panic_sig(&p)), format!("panic: {p}")),
                        };
                        self.record(&serde_json::to_value(it).unwrap(), &out);
                    }
                });
            }
        });
    }

    /// Replay one saved case.
    pub fn replay_case<T, F>(&mut self, path: &Path, f: F)
    where
        T: DeserializeOwned + Serialize,
        F: Fn(&T) -> Outcome,
    {
        self.strict_replay = true;
        let text = std::fs::read_to_string(path).expect("cannot read replay file");
        let v: Value = serde_json::from_str(&text).expect("replay file is not JSON");
        let case: T = serde_json::from_value(v["case"].clone()).expect("replay case does not deserialize");
        let out = match guarded(|| f(&case)) {
            Ok(o) => o,
            Err(p) => Outcome::fail(format!("panic:{}", panic_sig(&p)), format!("panic: {p}")),
        };
        self.record(&v["case"], &out);
    }

    /// Write evidence + replays, print VIOLATION / KNOWN-FINDING lines, return exit code.
    pub fn finish(self) -> i32 {
        let c = self.c.into_inner().unwrap();
        let wall = self.started.elapsed().as_secs_f64();
        let mut exit = 0;
        let mut broken: Vec<String> = vec![];

        // replays
        let mut violation_lines = vec![];
        for (sig, msg, case, rendered) in &c.violations {
            let body = json!({
                "property": self.id, "seed": self.seed, "tier": self.tier.name(),
                "sig": sig, "failure": msg, "case": case, "rendered": rendered,
            });
            let text = serde_json::to_string_pretty(&body).unwrap();
            let dir = PathBuf::from(VERIF_ROOT).join("replays").join(self.id);
            std::fs::create_dir_all(&dir).ok();
            let name = format!("{}.json", &sha_hex(serde_json::to_vec(case).unwrap().as_slice())[..16]);
            let path = dir.join(name);
            std::fs::write(&path, text).expect("write replay");
            violation_lines.push((path, sig.clone(), msg.clone()));
            exit = 1;
        }

        for (label, n) in &self.floors {
            let got = c.labels.get(label).copied().unwrap_or(0);
            if got < *n {
                broken.push(format!("label floor not reached: {label} = {got} < {n}"));
            }
        }
        if c.evaluations > 0 && c.gen_invalid * 100 > c.evaluations.max(1) * 3 {
            broken.push(format!(
                "generator soundness: {} of {} cases rejected by the reference side: {:?}",
                c.gen_invalid, c.evaluations, c.gen_invalid_examples
            ));
        }
        if c.evaluations > 0 && c.foreign * 2 > c.evaluations {
            broken.push(format!(
                "foreign failures dominate: {} of {}: {:?}",
                c.foreign, c.evaluations, c.foreign_examples
            ));
        }

        let mut samples: Vec<Value> = c.samples_first.clone();
        samples.extend(c.samples_nontrivial.iter().cloned());
        if samples.is_empty() {
            for (_, _, case, _) in &c.violations {
                samples.push(json!({"violating_case": case}));
            }
            for (k, v) in &c.known_examples {
                samples.push(json!({"known_finding": k, "example": v}));
            }
        }
        let mut coverage = serde_json::Map::new();
        coverage.insert("evaluations".into(), json!(c.evaluations));
        coverage.insert("distinct_nontrivial".into(), json!(c.nontrivial_hashes.len()));
        coverage.insert("distinct_cases".into(), json!(c.all_hashes.len()));
        coverage.insert("rule".into(), json!(self.rule));
        coverage.insert("samples".into(), json!(samples));
        coverage.insert("label_histogram".into(), json!(c.labels));
        coverage.insert("tolerated".into(), json!(c.tolerated));
        coverage.insert("known_finding_hits".into(), json!(c.known_hits));
        coverage.insert("known_finding_examples".into(), json!(c.known_examples));
        coverage.insert("foreign_failures".into(), json!(c.foreign));
        coverage.insert("foreign_examples".into(), json!(c.foreign_examples));
        coverage.insert("generator_invalid".into(), json!(c.gen_invalid));
        coverage.insert("generator_invalid_examples".into(), json!(c.gen_invalid_examples));
        if self.level == "translation_validation" {
            coverage.insert("programs".into(), json!(c.evaluations));
            coverage.insert("disagreements_checked".into(), json!(c.comparisons));
        } else if c.comparisons > 0 {
            coverage.insert("comparisons".into(), json!(c.comparisons));
        }
        if let Some(e) = self.exhaustive {
            coverage.insert("exhaustive".into(), json!(e));
        }
        if let Some(e) = &self.explanation {
            coverage.insert("explanation".into(), json!(e));
        }
        for (k, v) in &c.extra {
            coverage.insert(k.clone(), v.clone());
        }
        if !broken.is_empty() {
            coverage.insert("broken".into(), json!(broken));
        }
        let ev = json!({
            "property_id": self.id,
            "tier": self.tier.name(),
            "seed": self.seed,
            "level": self.level,
            "coverage": Value::Object(coverage),
            "assumptions": self.assumptions,
            "wall_s": wall,
            "violations": c.violations.len(),
        });
        let evdir = PathBuf::from(VERIF_ROOT).join("evidence");
        std::fs::create_dir_all(&evdir).ok();
        if !self.strict_replay {
            std::fs::write(
                evdir.join(format!("{}.json", self.id)),
                serde_json::to_string_pretty(&ev).unwrap(),
            )
            .expect("write evidence");
        }

        let known_keys: BTreeSet<&String> = c.known_hits.keys().collect();
        for k in known_keys {
            let what = self.known.iter().find(|x| &x.key == k).map(|x| x.what.as_str()).unwrap_or("");
            println!(
                "KNOWN-FINDING: property={} key={} hits={} {}",
                self.id, k, c.known_hits[k], what
            );
        }
        for (path, sig, msg) in &violation_lines {
            let first = msg.lines().next().unwrap_or("");
            println!("VIOLATION property={} replay={}", self.id, path.display());
            println!("  sig={sig}");
            println!("  {first}");
        }
        println!(
            "{} {} seed={} evaluations={} distinct_nontrivial={} known_hits={} foreign={} gen_invalid={} wall={:.1}s",
            self.id,
            self.tier.name(),
            self.seed,
            c.evaluations,
            c.nontrivial_hashes.len(),
            c.known_hits.values().sum::<u64>(),
            c.foreign,
            c.gen_invalid,
            wall
        );
        if exit == 0 && !broken.is_empty() {
            for b in &broken {
                println!("BROKEN-CHECK: property={} {}", self.id, b);
            }
            exit = 2;
        }
        if exit == 0 && !self.strict_replay && (c.evaluations == 0 || c.nontrivial_hashes.len() < 2) {
            println!("BROKEN-CHECK: property={} too few non-trivial cases", self.id);
            exit = 2;
        }
        exit
    }
}

/// Monotone index mapping so shrinking converges.
pub fn pick_idx(raw: u16, len: usize) -> usize {
    debug_assert!(len > 0);
    ((raw as usize) * len) >> 16
}

/// `*` in a known-finding key matches any (possibly empty) substring.
pub fn glob_match(pattern: &str, text: &str) -> bool {
    if !pattern.contains('*') {
        return pattern == text;
    }
    let parts: Vec<&str> = pattern.split('*').collect();
    let mut pos = 0usize;
    for (i, part) in parts.iter().enumerate() {
        if part.is_empty() {
            continue;
        }
        if i == 0 {
            if !text.starts_with(part) {
                return false;
            }
            pos = part.len();
        } else if i == parts.len() - 1 {
            return text.len() >= pos + part.len() && text.ends_with(part);
        } else {
            match text[pos..].find(part) {
                Some(j) => pos += j + part.len(),
                None => return false,
            }
        }
    }
    true
}
