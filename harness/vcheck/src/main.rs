use std::path::PathBuf;
use vcheck::engine::{install_quiet_panic_hook, Tier};
use vcheck::props;

fn main() {
    let args: Vec<String> = std::env::args().skip(1).collect();
    if args.is_empty() {
        eprintln!("usage: check <ID> [--tier quick|thorough] [--replay FILE]");
        std::process::exit(2);
    }
    if args[0] == "--worker-c14" {
        install_quiet_panic_hook();
        std::process::exit(props::c14::worker(&args[1], args[2].parse().unwrap()));
    }
    if args[0] == "--worker-c16" {
        install_quiet_panic_hook();
        std::process::exit(props::c16::worker());
    }
    let id = args[0].clone();
    let mut tier = match std::env::var("VERIF_TIER").as_deref() {
        Ok("thorough") => Tier::Thorough,
        _ => Tier::Quick,
    };
    let mut replay: Option<PathBuf> = None;
    let mut rest: Vec<String> = vec![];
    let mut i = 1;
    while i < args.len() {
        match args[i].as_str() {
            "--tier" => {
                tier = if args[i + 1] == "thorough" { Tier::Thorough } else { Tier::Quick };
                i += 1;
            }
            "--replay" => {
                replay = Some(PathBuf::from(&args[i + 1]));
                i += 1;
            }
            other => rest.push(other.to_string()),
        }
        i += 1;
    }
    let seed: u64 = std::env::var("VERIF_SEED").ok().and_then(|s| s.parse().ok()).unwrap_or(0);
    install_quiet_panic_hook();
    if id == "probe-lib" {
        use proptest::strategy::{Strategy, ValueTree};
        let n: usize = rest.first().and_then(|s| s.parse().ok()).unwrap_or(100);
        let mut runner = vcheck::engine::runner_for(seed, 77);
        let strat = vcheck::gen::wit::libspec_strategy(4);
        let (mut ok, mut bad, mut bytes) = (0, 0, 0usize);
        let t0 = std::time::Instant::now();
        let mut feats = std::collections::BTreeMap::<&str, usize>::new();
        for _ in 0..n {
            let spec = strat.new_tree(&mut runner).unwrap().current();
            let lib = vcheck::gen::wit::build_lib(&spec);
            for f in vcheck::gen::wit::lib_features(&lib) {
                *feats.entry(f).or_default() += 1;
            }
            let r = match vcheck::engine::guarded(|| vcheck::gen::wit::build_library(&lib)) {
                Ok(r) => r,
                Err(p) => Err(format!("PANIC in reference toolchain: {p}\n{}", vcheck::gen::wit::render_world(&lib.apis, &lib.comps[0]))),
            };
            match r {
                Ok(cs) => {
                    ok += 1;
                    bytes += cs.iter().map(|c| c.bytes.len()).sum::<usize>();
                }
                Err(e) => {
                    bad += 1;
                    if bad <= 3 {
                        println!("REJECTED: {e}");
                    }
                }
            }
        }
        println!("libs ok={ok} rejected={bad} bytes={bytes} in {:?}; features {feats:?}", t0.elapsed());
        return;
    }
    if id == "probe-c19-fixed" {
        for k in 0..3u8 {
            println!("fixed {k}: {}", props::c19::probe_fixed(k));
        }
        return;
    }
    if id == "probe-uses" {
        // check probe-uses <replay.json of a graph case>: decode the library's components and show what wac records
        let v: serde_json::Value = serde_json::from_str(&std::fs::read_to_string(&rest[0]).unwrap()).unwrap();
        let spec: vcheck::gen::wit::LibSpec = serde_json::from_value(v["case"]["lib"].clone()).unwrap();
        let lib = vcheck::gen::wit::build_lib(&spec);
        let comps = vcheck::gen::wit::build_library(&lib).unwrap();
        for c in &comps {
            println!("== {}\n{}", c.name, c.wit);
            let mut types = wac_types::Types::default();
            let p = wac_types::Package::from_bytes(&c.name, None, c.bytes.clone(), &mut types).unwrap();
            let w = &types[p.ty()];
            for (dir, m) in [("import", &w.imports), ("export", &w.exports)] {
                for (n, k) in m {
                    if let wac_types::ItemKind::Instance(id) = k {
                        let i = &types[*id];
                        println!("  {dir} {n}: id {:?}", i.id);
                        for (un, u) in &i.uses {
                            println!("    uses {un} from {:?} (orig {:?})", types[u.interface].id, u.name);
                        }
                        for (en, ek) in &i.exports {
                            if let wac_types::ItemKind::Type(wac_types::Type::Resource(r)) = ek {
                                let res = &types[*r];
                                println!("    resource export {en}: name {} alias {:?}", res.name, res.alias.map(|a| (a.owner.map(|o| types[o].id.clone()), types[a.source].name.clone())));
                            }
                        }
                    }
                }
            }
        }
        return;
    }
    if id == "probe-hist" {
        // check probe-hist <replay.json of a graph history case>: execute it, print the trace and the encoded text
        let v: serde_json::Value = serde_json::from_str(&std::fs::read_to_string(&rest[0]).unwrap()).unwrap();
        let case: vcheck::gen::ghist::GCase = serde_json::from_value(v["case"].clone()).unwrap();
        match vcheck::gen::ghist::execute(&case) {
            Ok(b) => {
                println!("{}", b.trace.join("\n"));
                match b.graph.encode(wac_graph::EncodeOptions { define_components: false, validate: false, processor: None }) {
                    Ok(bytes) => println!("{}", wasmprinter::print_bytes(&bytes).unwrap_or_else(|e| format!("<unprintable: {e}>"))),
                    Err(e) => println!("encode error: {e:#}"),
                }
            }
            Err(_) => println!("history does not execute"),
        }
        return;
    }
    if id == "probe-enc" {
        // check probe-enc <text|@file>: resolve without packages, encode, print as WAT
        let text = rest.join(" ");
        let text = if let Some(f) = text.strip_prefix('@') { std::fs::read_to_string(f).unwrap() } else { text };
        let doc = wac_parser::Document::parse(&text).unwrap_or_else(|e| panic!("parse: {e:?}"));
        let r = doc.resolve(Default::default()).unwrap_or_else(|e| panic!("resolve: {e:?}"));
        let b = r.encode(wac_graph::EncodeOptions { define_components: true, validate: false, processor: None }).unwrap_or_else(|e| panic!("encode: {e:?}"));
        println!("{}", wasmprinter::print_bytes(&b).unwrap());
        return;
    }
    if id == "probe-fe" {
        // check probe-fe <text|@file>: run the whole front end (parse, discover, resolve against the C14 fixtures' packages, encode)
        let text = rest.join(" ");
        let text = if let Some(f) = text.strip_prefix('@') { std::fs::read_to_string(f).unwrap() } else { text };
        let mut st = props::c14::Stages::default();
        let r = props::c14::front_end(&text, &props::c14::probe_packages(), &mut st);
        println!("stages parsed={} discovered={} resolved={} encoded={} result={r:?}", st.parsed, st.discovered, st.resolved, st.encoded);
        return;
    }
    if id == "probe" {
        // check probe <text>: show wac tokens, wac verdict, reference verdicts
        let text = rest.join(" ");
        let text = if let Some(f) = text.strip_prefix('@') { std::fs::read_to_string(f).unwrap() } else { text };
        println!("text: {text:?}");
        match wac_parser::lexer::Lexer::new(&text) {
            Ok(lexer) => {
                for (t, span) in lexer {
                    println!("  tok {:?} {:?} {:?}", t, span, &text[span.offset()..span.offset() + span.len()]);
                }
            }
            Err(e) => println!("  lexer new error: {e:?}"),
        }
        match vcheck::wacutil::parse_tree(&text) {
            Ok(t) => println!("wac: ACCEPT {}", vcheck::gen::wacsyn::normalize(&t)),
            Err(e) => println!("wac: REJECT {e:?}"),
        }
        for (n, d) in [("documented", vcheck::oracle::gram::Dialect::DOCUMENTED), ("all-deviations", vcheck::oracle::gram::Dialect::all())] {
            match vcheck::oracle::gram::recognise(&text, &d) {
                Ok(t) => println!("ref[{n}]: ACCEPT {t}"),
                Err(e) => println!("ref[{n}]: REJECT {e:?}"),
            }
        }
        return;
    }
    let code = match id.as_str() {
        "C01" => props::c01::run(tier, seed, replay.as_deref()),
        "C02" => props::c02::run(tier, seed, replay.as_deref()),
        "C03" => props::c03::run(tier, seed, replay.as_deref()),
        "C19" => props::c19::run(tier, seed, replay.as_deref()),
        "C04" => props::c04::run(tier, seed, replay.as_deref()),
        "C05" => props::c05::run(tier, seed, replay.as_deref()),
        "C11" => props::c11::run(tier, seed, replay.as_deref()),
        "C10" => props::c10::run(tier, seed, replay.as_deref()),
        "C09" => props::c09::run(tier, seed, replay.as_deref()),
        "C08" => props::c08::run(tier, seed, replay.as_deref()),
        "C07" => props::c07::run(tier, seed, replay.as_deref()),
        "C06" => props::c06::run(tier, seed, replay.as_deref()),
        "C12" => props::c12::run(tier, seed, replay.as_deref()),
        "C13" => props::c13::run(tier, seed, replay.as_deref()),
        "C14" => props::c14::run(tier, seed, replay.as_deref()),
        "C18" => props::c18::run(tier, seed, replay.as_deref()),
        "C17" => props::c17::run(tier, seed, replay.as_deref()),
        "C16" => props::c16::run(tier, seed, replay.as_deref()),
        "C15" => props::c15::run(tier, seed, replay.as_deref()),
        _ => {
            eprintln!("unknown property {id}");
            2
        }
    };
    std::process::exit(code);
}
