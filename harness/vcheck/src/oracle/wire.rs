//! O-wire — an independent section-level reader of an encoded composition.
//!
//! Walks the *top level only* of a component binary with `wasmparser::Parser` payloads (no
//! validator, no wac code) and rebuilds every index space with provenance, the import and export
//! lists (with the export-name set of instance-typed imports), the component name section and the
//! producers section.

use std::collections::BTreeMap;
use wasmparser::{ComponentAlias, ComponentExternalKind, ComponentTypeRef, KnownCustom, Parser, Payload};

#[derive(Clone, Copy, Debug, PartialEq, Eq, PartialOrd, Ord, Hash)]
pub enum Kind {
    Module,
    Func,
    Value,
    Type,
    Instance,
    Component,
}

impl Kind {
    pub fn of_external(k: ComponentExternalKind) -> Kind {
        match k {
            ComponentExternalKind::Module => Kind::Module,
            ComponentExternalKind::Func => Kind::Func,
            ComponentExternalKind::Value => Kind::Value,
            ComponentExternalKind::Type => Kind::Type,
            ComponentExternalKind::Instance => Kind::Instance,
            ComponentExternalKind::Component => Kind::Component,
        }
    }
    pub fn of_typeref(t: &ComponentTypeRef) -> Kind {
        match t {
            ComponentTypeRef::Module(_) => Kind::Module,
            ComponentTypeRef::Func(_) => Kind::Func,
            ComponentTypeRef::Value(_) => Kind::Value,
            ComponentTypeRef::Type(_) => Kind::Type,
            ComponentTypeRef::Instance(_) => Kind::Instance,
            ComponentTypeRef::Component(_) => Kind::Component,
        }
    }
}

/// Where an index of some index space comes from.
#[derive(Clone, Debug, PartialEq, Eq)]
pub enum Origin {
    Import { name: String },
    TypeDef { summary: String },
    Component { bytes: Vec<u8> },
    Instantiate { component: u32, args: Vec<(String, Kind, u32)> },
    InstanceFromExports,
    Alias { instance: u32, name: String },
    OtherAlias,
    Export { name: String, of: u32 },
}

#[derive(Clone, Debug, Default)]
pub struct ImportInfo {
    pub name: String,
    pub kind: Option<Kind>,
    /// for instance-typed imports: the export names (and kinds) of the instance type
    pub instance_exports: Option<Vec<(String, Kind)>>,
    /// for component-typed imports: (import names, export names) of the component type
    pub component_shape: Option<(Vec<String>, Vec<String>)>,
    /// raw type index (for Type/Func/Instance/Component/Module refs)
    pub type_index: Option<u32>,
}

#[derive(Clone, Debug, Default)]
pub struct Wire {
    pub spaces: BTreeMap<Kind, Vec<Origin>>,
    pub imports: Vec<ImportInfo>,
    pub exports: Vec<(String, Kind, u32)>,
    /// kind -> (index, name) from the component name section
    pub names: BTreeMap<Kind, Vec<(u32, String)>>,
    pub producers: Vec<(String, Vec<(String, String)>)>,
    pub custom_sections: Vec<String>,
    /// order of top-level items: "import:<name>", "component", "instance", "alias", "export:<name>", "type"
    pub order: Vec<String>,
}

/// What a top-level type definition is (enough for C03: instance export names).
#[derive(Clone, Debug)]
enum TypeInfo {
    Instance(Vec<(String, Kind)>),
    Component(Vec<String>, Vec<String>),
    Other,
}

impl Wire {
    fn push(&mut self, k: Kind, o: Origin) -> u32 {
        let v = self.spaces.entry(k).or_default();
        v.push(o);
        (v.len() - 1) as u32
    }

    pub fn get(&self, k: Kind, i: u32) -> Option<&Origin> {
        self.spaces.get(&k).and_then(|v| v.get(i as usize))
    }

    /// Follow `Export` origins back to the item that was exported (an export allocates a new index
    /// that denotes the same item).
    pub fn resolve(&self, k: Kind, mut i: u32) -> (u32, Option<&Origin>) {
        loop {
            match self.get(k, i) {
                Some(Origin::Export { of, .. }) => i = *of,
                other => return (i, other),
            }
        }
    }

    pub fn instantiations(&self) -> Vec<(u32, u32, &Vec<(String, Kind, u32)>)> {
        let mut out = vec![];
        if let Some(v) = self.spaces.get(&Kind::Instance) {
            for (i, o) in v.iter().enumerate() {
                if let Origin::Instantiate { component, args } = o {
                    out.push((i as u32, *component, args));
                }
            }
        }
        out
    }

    pub fn embedded_components(&self) -> Vec<(u32, &Vec<u8>)> {
        let mut out = vec![];
        if let Some(v) = self.spaces.get(&Kind::Component) {
            for (i, o) in v.iter().enumerate() {
                if let Origin::Component { bytes } = o {
                    out.push((i as u32, bytes));
                }
            }
        }
        out
    }
}

pub fn decode(bytes: &[u8]) -> Result<Wire, String> {
    let mut w = Wire::default();
    let mut depth = 0usize;
    let mut types: Vec<TypeInfo> = vec![];
    // type index space positions that are not defined by the type section (imports/aliases/exports of kind Type)
    let mut type_space_to_def: Vec<Option<usize>> = vec![];
    for payload in Parser::new(0).parse_all(bytes) {
        let payload = payload.map_err(|e| format!("parse error: {e}"))?;
        if depth > 0 {
            match payload {
                Payload::ComponentSection { .. } | Payload::ModuleSection { .. } => depth += 1,
                Payload::End(_) => depth -= 1,
                _ => {}
            }
            continue;
        }
        match payload {
            Payload::Version { .. } => {}
            Payload::ComponentSection { unchecked_range, .. } => {
                depth += 1;
                let Some(nested) = bytes.get(unchecked_range.start..unchecked_range.end) else {
                    return Err(format!("nested component section {}..{} exceeds the {} bytes given (truncated input)", unchecked_range.start, unchecked_range.end, bytes.len()));
                };
                w.push(Kind::Component, Origin::Component { bytes: nested.to_vec() });
                w.order.push("component".into());
            }
            Payload::ModuleSection { .. } => {
                depth += 1;
                w.push(Kind::Module, Origin::OtherAlias);
                w.order.push("module".into());
            }
            Payload::ComponentTypeSection(s) => {
                for t in s {
                    let t = t.map_err(|e| e.to_string())?;
                    let info = match &t {
                        wasmparser::ComponentType::Instance(decls) => {
                            let mut ex = vec![];
                            for d in decls.iter() {
                                if let wasmparser::InstanceTypeDeclaration::Export { name, ty } = d {
                                    ex.push((name.0.to_string(), Kind::of_typeref(ty)));
                                }
                            }
                            TypeInfo::Instance(ex)
                        }
                        wasmparser::ComponentType::Component(decls) => {
                            let (mut im, mut ex) = (vec![], vec![]);
                            for d in decls.iter() {
                                match d {
                                    wasmparser::ComponentTypeDeclaration::Import(i) => im.push(i.name.0.to_string()),
                                    wasmparser::ComponentTypeDeclaration::Export { name, .. } => ex.push(name.0.to_string()),
                                    _ => {}
                                }
                            }
                            TypeInfo::Component(im, ex)
                        }
                        _ => TypeInfo::Other,
                    };
                    let summary = match &t {
                        wasmparser::ComponentType::Defined(d) => format!("defined:{d:?}"),
                        wasmparser::ComponentType::Func(_) => "func".to_string(),
                        wasmparser::ComponentType::Component(_) => "component".to_string(),
                        wasmparser::ComponentType::Instance(_) => "instance".to_string(),
                        wasmparser::ComponentType::Resource { .. } => "resource".to_string(),
                    };
                    types.push(info);
                    type_space_to_def.push(Some(types.len() - 1));
                    w.push(Kind::Type, Origin::TypeDef { summary });
                    w.order.push("type".into());
                }
            }
            Payload::ComponentImportSection(s) => {
                for i in s {
                    let i = i.map_err(|e| e.to_string())?;
                    let kind = Kind::of_typeref(&i.ty);
                    let mut info = ImportInfo { name: i.name.0.to_string(), kind: Some(kind), ..Default::default() };
                    let ty_index = match i.ty {
                        ComponentTypeRef::Instance(t) | ComponentTypeRef::Component(t) | ComponentTypeRef::Func(t) | ComponentTypeRef::Module(t) => Some(t),
                        ComponentTypeRef::Type(wasmparser::TypeBounds::Eq(t)) => Some(t),
                        _ => None,
                    };
                    info.type_index = ty_index;
                    if let Some(t) = ty_index {
                        if let Some(Some(d)) = type_space_to_def.get(t as usize) {
                            match &types[*d] {
                                TypeInfo::Instance(ex) if kind == Kind::Instance => info.instance_exports = Some(ex.clone()),
                                TypeInfo::Component(im, ex) if kind == Kind::Component => info.component_shape = Some((im.clone(), ex.clone())),
                                _ => {}
                            }
                        }
                    }
                    w.order.push(format!("import:{}", info.name));
                    w.push(kind, Origin::Import { name: info.name.clone() });
                    if kind == Kind::Type {
                        type_space_to_def.push(None);
                    }
                    w.imports.push(info);
                }
            }
            Payload::ComponentInstanceSection(s) => {
                for inst in s {
                    match inst.map_err(|e| e.to_string())? {
                        wasmparser::ComponentInstance::Instantiate { component_index, args } => {
                            let args = args.iter().map(|a| (a.name.to_string(), Kind::of_external(a.kind), a.index)).collect();
                            w.push(Kind::Instance, Origin::Instantiate { component: component_index, args });
                        }
                        wasmparser::ComponentInstance::FromExports(_) => {
                            w.push(Kind::Instance, Origin::InstanceFromExports);
                        }
                    }
                    w.order.push("instance".into());
                }
            }
            Payload::ComponentAliasSection(s) => {
                for a in s {
                    match a.map_err(|e| e.to_string())? {
                        ComponentAlias::InstanceExport { kind, instance_index, name } => {
                            let k = Kind::of_external(kind);
                            w.push(k, Origin::Alias { instance: instance_index, name: name.to_string() });
                            if k == Kind::Type {
                                type_space_to_def.push(None);
                            }
                        }
                        ComponentAlias::CoreInstanceExport { .. } => {}
                        ComponentAlias::Outer { kind, .. } => match kind {
                            wasmparser::ComponentOuterAliasKind::Type => {
                                w.push(Kind::Type, Origin::OtherAlias);
                                type_space_to_def.push(None);
                            }
                            wasmparser::ComponentOuterAliasKind::Component => {
                                w.push(Kind::Component, Origin::OtherAlias);
                            }
                            _ => {}
                        },
                    }
                    w.order.push("alias".into());
                }
            }
            Payload::ComponentExportSection(s) => {
                for e in s {
                    let e = e.map_err(|e| e.to_string())?;
                    let k = Kind::of_external(e.kind);
                    w.exports.push((e.name.0.to_string(), k, e.index));
                    w.order.push(format!("export:{}", e.name.0));
                    w.push(k, Origin::Export { name: e.name.0.to_string(), of: e.index });
                    if k == Kind::Type {
                        let d = type_space_to_def.get(e.index as usize).cloned().flatten();
                        type_space_to_def.push(d);
                    }
                }
            }
            Payload::CustomSection(c) => {
                w.custom_sections.push(c.name().to_string());
                match c.as_known() {
                    KnownCustom::ComponentName(reader) => {
                        for sub in reader {
                            let sub = sub.map_err(|e| e.to_string())?;
                            let (k, map) = match sub {
                                wasmparser::ComponentName::Funcs(m) => (Kind::Func, m),
                                wasmparser::ComponentName::Instances(m) => (Kind::Instance, m),
                                wasmparser::ComponentName::Components(m) => (Kind::Component, m),
                                wasmparser::ComponentName::Types(m) => (Kind::Type, m),
                                wasmparser::ComponentName::Values(m) => (Kind::Value, m),
                                wasmparser::ComponentName::CoreModules(m) => (Kind::Module, m),
                                _ => continue,
                            };
                            for n in map {
                                let n = n.map_err(|e| e.to_string())?;
                                w.names.entry(k).or_default().push((n.index, n.name.to_string()));
                            }
                        }
                    }
                    KnownCustom::Producers(reader) => {
                        for f in reader {
                            let f = f.map_err(|e| e.to_string())?;
                            let mut vals = vec![];
                            for v in f.values {
                                let v = v.map_err(|e| e.to_string())?;
                                vals.push((v.name.to_string(), v.version.to_string()));
                            }
                            w.producers.push((f.name.to_string(), vals));
                        }
                    }
                    _ => {}
                }
            }
            Payload::End(_) => {}
            Payload::CoreTypeSection(_) => {}
            other => {
                // canonical functions, core instances, start etc. do not occur at the top level of a composition
                w.order.push(format!("other:{:?}", std::mem::discriminant(&other)));
            }
        }
    }
    Ok(w)
}
