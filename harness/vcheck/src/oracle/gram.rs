//! O-gram — reference tokenizer + recogniser for WAC, written from LANGUAGE.md (EBNF, whitespace
//! rules, prose) and NOT from wac's lexer/parser.  It decides membership of a text in the language
//! and, for members, builds the span-free tree in the shape of `wacsyn::normalize(serde(wac doc))`.
//!
//! `Dialect` switches the places where the pinned parser is known (DESIGN.md §8) to deviate from the
//! EBNF, so that a disagreement can be attributed to a named deviation instead of being lumped together.

use crate::gen::wacsyn::KEYWORDS;
use serde_json::{json, Value};

#[derive(Clone, Copy, Debug, PartialEq, Eq)]
pub struct Dialect {
    /// S10: `func() -> ;` (arrow without a result) accepted.
    pub arrow_without_result: bool,
    /// Result lists are a single type (LANGUAGE.md after the grammar fix; always true).
    pub no_named_results: bool,
    /// S12: `use x.{}` accepted.
    pub empty_use_items: bool,
    /// S12: `include w with {}` accepted.
    pub empty_include_with: bool,
    /// S24: `result<_>`, `result<_, _>`, `result<t, _>` accepted.
    pub result_underscore_forms: bool,
    /// `borrow<...>` takes an identifier (LANGUAGE.md after the grammar fix; always true).
    pub borrow_id_only: bool,
    /// S23: a dangling `-` / `:` after an identifier or package name is swallowed into the token.
    pub lexer_dangling_separator: bool,
    /// a keyword directly followed by `:` is lexed as a plain identifier (`import new: a:b/c;` parses).
    pub keyword_before_colon_is_ident: bool,
}

impl Dialect {
    /// The documented language (EBNF + tolerances T1, T2, upper-case words).
    pub const DOCUMENTED: Dialect = Dialect {
        arrow_without_result: false,
        no_named_results: true,
        empty_use_items: false,
        empty_include_with: false,
        result_underscore_forms: false,
        borrow_id_only: true,
        lexer_dangling_separator: false,
        keyword_before_colon_is_ident: false,
    };
    pub const NAMES: &'static [&'static str] = &[
        "arrow-without-result",
        "empty-use-items-accepted",
        "empty-include-with-accepted",
        "result-underscore-forms-accepted",
        "lexer-swallows-dangling-separator",
        "keyword-before-colon-lexes-as-identifier",
    ];
    pub fn get(&self, i: usize) -> bool {
        match i {
            0 => self.arrow_without_result,
            1 => self.empty_use_items,
            2 => self.empty_include_with,
            3 => self.result_underscore_forms,
            4 => self.lexer_dangling_separator,
            5 => self.keyword_before_colon_is_ident,
            _ => unreachable!(),
        }
    }
    pub fn set(&mut self, i: usize, v: bool) {
        match i {
            0 => self.arrow_without_result = v,
            1 => self.empty_use_items = v,
            2 => self.empty_include_with = v,
            3 => self.result_underscore_forms = v,
            4 => self.lexer_dangling_separator = v,
            5 => self.keyword_before_colon_is_ident = v,
            _ => unreachable!(),
        }
    }
    pub fn all() -> Dialect {
        let mut d = Dialect::DOCUMENTED;
        for i in 0..Self::NAMES.len() {
            d.set(i, true);
        }
        d
    }
}

#[derive(Clone, Debug, PartialEq, Eq)]
pub enum Kind {
    Kw,
    Ident,
    Str,
    PkgName,
    PkgPath,
    Sym,
}

#[derive(Clone, Debug)]
pub struct RTok {
    pub kind: Kind,
    pub text: String,
    pub start: usize,
    pub end: usize,
}

#[derive(Clone, Debug)]
pub struct Reject {
    pub why: String,
    pub at: usize,
}

pub fn forbidden_code_point(c: char) -> bool {
    match c {
        '\r' | '\t' | '\n' => false,
        '\u{202a}'..='\u{202e}' | '\u{2066}'..='\u{2069}' => true,
        '\u{149}' | '\u{673}' | '\u{f77}' | '\u{f79}' | '\u{17a3}' | '\u{17a4}' | '\u{17b4}' | '\u{17b5}' => true,
        c => c.is_control(),
    }
}

fn word_len(b: &[u8]) -> usize {
    // word = [a-z][a-z0-9]* | [A-Z][A-Z0-9]*
    if b.is_empty() {
        return 0;
    }
    if b[0].is_ascii_lowercase() {
        let mut n = 1;
        while n < b.len() && (b[n].is_ascii_lowercase() || b[n].is_ascii_digit()) {
            n += 1;
        }
        n
    } else if b[0].is_ascii_uppercase() {
        let mut n = 1;
        while n < b.len() && (b[n].is_ascii_uppercase() || b[n].is_ascii_digit()) {
            n += 1;
        }
        n
    } else {
        0
    }
}

fn id_len(b: &[u8]) -> usize {
    // id = %? word (- word)*
    let mut n = 0;
    if b.first() == Some(&b'%') {
        n = 1;
    }
    let w = word_len(&b[n..]);
    if w == 0 {
        return 0;
    }
    n += w;
    loop {
        if b.get(n) == Some(&b'-') {
            let w = word_len(&b[n + 1..]);
            if w == 0 {
                break;
            }
            n += 1 + w;
        } else {
            break;
        }
    }
    n
}

fn loose_version_len(b: &[u8]) -> usize {
    // [0-9]+ (\. [0-9a-zA-Z+-]+)*
    let mut n = 0;
    while n < b.len() && b[n].is_ascii_digit() {
        n += 1;
    }
    if n == 0 {
        return 0;
    }
    loop {
        if b.get(n) == Some(&b'.') {
            let mut m = n + 1;
            while m < b.len() && (b[m].is_ascii_alphanumeric() || b[m] == b'+' || b[m] == b'-') {
                m += 1;
            }
            if m == n + 1 {
                break;
            }
            n = m;
        } else {
            break;
        }
    }
    n
}

const SYMS: &[&str] = &["...", "->", ";", "{", "}", ":", "=", "(", ")", "<", ">", "_", "[", "]", ".", ",", "/", "@"];

pub fn tokenize(src: &str, d: &Dialect) -> Result<Vec<RTok>, Reject> {
    for (i, c) in src.char_indices() {
        if forbidden_code_point(c) {
            return Err(Reject { why: format!("forbidden code point U+{:04X}", c as u32), at: i });
        }
    }
    let b = src.as_bytes();
    let mut i = 0usize;
    let mut out = vec![];
    while i < b.len() {
        let c = b[i];
        if c == b' ' || c == b'\t' || c == b'\r' || c == b'\n' {
            i += 1;
            continue;
        }
        if c == b'/' && b.get(i + 1) == Some(&b'/') {
            while i < b.len() && b[i] != b'\n' {
                i += 1;
            }
            continue;
        }
        if c == b'/' && b.get(i + 1) == Some(&b'*') {
            let start = i;
            let mut depth = 1;
            i += 2;
            while depth > 0 {
                if i >= b.len() {
                    return Err(Reject { why: "unterminated block comment".into(), at: start });
                }
                if b[i] == b'/' && b.get(i + 1) == Some(&b'*') {
                    depth += 1;
                    i += 2;
                } else if b[i] == b'*' && b.get(i + 1) == Some(&b'/') {
                    depth -= 1;
                    i += 2;
                } else {
                    i += 1;
                }
            }
            continue;
        }
        if c == b'"' {
            match src[i + 1..].find('"') {
                None => return Err(Reject { why: "unterminated string".into(), at: i }),
                Some(n) => {
                    let end = i + 1 + n + 1;
                    out.push(RTok { kind: Kind::Str, text: src[i..end].to_string(), start: i, end });
                    i = end;
                    continue;
                }
            }
        }
        // word-like tokens: longest of id / package-name / package-path
        let idl = id_len(&b[i..]);
        if idl > 0 {
            let mut best = (idl, Kind::Ident);
            // (: id)+
            let mut n = idl;
            let mut colons = 0;
            loop {
                if b.get(i + n) == Some(&b':') {
                    let l = id_len(&b[i + n + 1..]);
                    if l == 0 {
                        break;
                    }
                    n += 1 + l;
                    colons += 1;
                } else {
                    break;
                }
            }
            if colons > 0 {
                let name_len = n;
                let mut with_v = name_len;
                if b.get(i + name_len) == Some(&b'@') {
                    let v = loose_version_len(&b[i + name_len + 1..]);
                    if v > 0 {
                        with_v = name_len + 1 + v;
                    }
                }
                if with_v > best.0 {
                    best = (with_v, Kind::PkgName);
                }
                // (/ id)+
                let mut m = name_len;
                let mut slashes = 0;
                loop {
                    if b.get(i + m) == Some(&b'/') {
                        let l = id_len(&b[i + m + 1..]);
                        if l == 0 {
                            break;
                        }
                        m += 1 + l;
                        slashes += 1;
                    } else {
                        break;
                    }
                }
                if slashes > 0 {
                    let mut pv = m;
                    if b.get(i + m) == Some(&b'@') {
                        let v = loose_version_len(&b[i + m + 1..]);
                        if v > 0 {
                            pv = m + 1 + v;
                        }
                    }
                    if pv > best.0 {
                        best = (pv, Kind::PkgPath);
                    }
                }
            }
            let (mut len, mut kind) = best;
            let mut never_keyword = false;
            if d.lexer_dangling_separator {
                // observed behaviour of the pinned lexer (S23): a dangling `-` directly after an
                // identifier (or keyword), or a dangling `:`/`-` directly after an unversioned
                // package name, is swallowed into the token.
                let next = b.get(i + len).copied();
                let versioned = src[i..i + len].contains('@');
                if !versioned {
                    match (&kind, next) {
                        (Kind::Ident, Some(b'-')) => len += 1,
                        (Kind::PkgName, Some(b'-')) | (Kind::PkgName, Some(b':')) => len += 1,
                        _ => {}
                    }
                }
            }
            if d.keyword_before_colon_is_ident && kind == Kind::Ident && b.get(i + len) == Some(&b':') {
                // observed: a keyword directly followed by `:` is lexed as an identifier
                never_keyword = true;
            }
            let text = &src[i..i + len];
            if kind == Kind::Ident && KEYWORDS.contains(&text) && !never_keyword {
                kind = Kind::Kw;
            }
            out.push(RTok { kind, text: text.to_string(), start: i, end: i + len });
            i += len;
            continue;
        }
        let mut matched = false;
        for s in SYMS {
            if src[i..].starts_with(s) {
                out.push(RTok { kind: Kind::Sym, text: s.to_string(), start: i, end: i + s.len() });
                i += s.len();
                matched = true;
                break;
            }
        }
        if !matched {
            return Err(Reject { why: format!("no token starts with {:?}", src[i..].chars().next().unwrap()), at: i });
        }
    }
    Ok(out)
}

pub struct Parser<'a> {
    toks: &'a [RTok],
    pos: usize,
    d: Dialect,
    end: usize,
}

type R<T> = Result<T, Reject>;

fn ident_json(text: &str) -> Value {
    json!({"string": text.strip_prefix('%').unwrap_or(text)})
}

impl<'a> Parser<'a> {
    fn peek(&self) -> Option<&RTok> {
        self.toks.get(self.pos)
    }
    fn peek2(&self) -> Option<&RTok> {
        self.toks.get(self.pos + 1)
    }
    fn at(&self) -> usize {
        self.peek().map(|t| t.start).unwrap_or(self.end)
    }
    fn err<T>(&self, why: &str) -> R<T> {
        Err(Reject { why: format!("{why}; found {:?}", self.peek().map(|t| t.text.as_str())), at: self.at() })
    }
    fn is_sym(&self, s: &str) -> bool {
        matches!(self.peek(), Some(t) if t.kind == Kind::Sym && t.text == s)
    }
    fn is_kw(&self, s: &str) -> bool {
        matches!(self.peek(), Some(t) if t.kind == Kind::Kw && t.text == s)
    }
    fn is_kind(&self, k: Kind) -> bool {
        matches!(self.peek(), Some(t) if t.kind == k)
    }
    fn sym(&mut self, s: &str) -> R<()> {
        if self.is_sym(s) {
            self.pos += 1;
            Ok(())
        } else {
            self.err(&format!("expected `{s}`"))
        }
    }
    fn kw(&mut self, s: &str) -> R<()> {
        if self.is_kw(s) {
            self.pos += 1;
            Ok(())
        } else {
            self.err(&format!("expected `{s}`"))
        }
    }
    fn id(&mut self) -> R<Value> {
        if self.is_kind(Kind::Ident) {
            let t = &self.toks[self.pos];
            self.pos += 1;
            Ok(ident_json(&t.text))
        } else {
            self.err("expected identifier")
        }
    }
    fn string(&mut self) -> R<Value> {
        if self.is_kind(Kind::Str) {
            let t = &self.toks[self.pos];
            self.pos += 1;
            Ok(json!({"value": t.text[1..t.text.len() - 1]}))
        } else {
            self.err("expected string")
        }
    }
    fn version_of(&self, text: &str, at: usize) -> R<Option<String>> {
        match text.split_once('@') {
            None => Ok(None),
            Some((_, v)) => match semver::Version::parse(v) {
                Ok(ver) => Ok(Some(ver.to_string())),
                Err(_) => Err(Reject { why: format!("`{v}` is not a valid semantic version"), at }),
            },
        }
    }
    fn pkg_name(&mut self) -> R<Value> {
        if self.is_kind(Kind::PkgName) {
            let t = self.toks[self.pos].clone();
            self.pos += 1;
            let version = self.version_of(&t.text, t.start)?;
            let name = t.text.split('@').next().unwrap();
            Ok(json!({"string": t.text, "name": name, "version": version}))
        } else {
            self.err("expected package name")
        }
    }
    fn pkg_path(&mut self) -> R<Value> {
        if self.is_kind(Kind::PkgPath) {
            let t = self.toks[self.pos].clone();
            self.pos += 1;
            let version = self.version_of(&t.text, t.start)?;
            let no_v = t.text.split('@').next().unwrap();
            let (name, segs) = no_v.split_once('/').unwrap();
            Ok(json!({"string": t.text, "name": name, "segments": segs, "version": version}))
        } else {
            self.err("expected package path")
        }
    }
    fn ext_name(&mut self) -> R<Value> {
        if self.is_kind(Kind::Ident) {
            Ok(json!({"ident": self.id()?}))
        } else if self.is_kind(Kind::Str) {
            Ok(json!({"string": self.string()?}))
        } else {
            self.err("expected identifier or string")
        }
    }

    /// item (',' item)* ','?   up to `close` (not consumed); `min` items required.
    fn comma_list(&mut self, close: &str, min: usize, what: &str, mut item: impl FnMut(&mut Self) -> R<Value>) -> R<Vec<Value>> {
        let mut items = vec![];
        loop {
            if self.is_sym(close) {
                break;
            }
            items.push(item(self)?);
            if self.is_sym(",") {
                self.pos += 1;
            } else {
                break;
            }
        }
        if items.len() < min {
            return Err(Reject { why: format!("{what} must not be empty"), at: self.at() });
        }
        Ok(items)
    }

    pub fn document(&mut self) -> R<Value> {
        self.kw("package")?;
        let package = self.pkg_name()?;
        let mut directive = serde_json::Map::new();
        directive.insert("package".into(), package);
        if self.is_kw("targets") {
            self.pos += 1;
            directive.insert("targets".into(), self.pkg_path()?);
        }
        self.sym(";")?;
        let mut statements = vec![];
        while self.peek().is_some() {
            statements.push(self.statement()?);
        }
        Ok(json!({"directive": Value::Object(directive), "statements": statements}))
    }

    fn statement(&mut self) -> R<Value> {
        let Some(t) = self.peek() else { return self.err("expected statement") };
        if t.kind != Kind::Kw {
            return self.err("expected statement");
        }
        match t.text.as_str() {
            "import" => Ok(json!({"Import": self.import_statement()?})),
            "let" => Ok(json!({"Let": self.let_statement()?})),
            "export" => Ok(json!({"Export": self.export_statement()?})),
            "interface" => {
                self.pos += 1;
                let id = self.id()?;
                self.sym("{")?;
                let items = self.interface_items()?;
                self.sym("}")?;
                Ok(json!({"Type": {"interface": {"id": id, "items": items}}}))
            }
            "world" => {
                self.pos += 1;
                let id = self.id()?;
                self.sym("{")?;
                let mut items = vec![];
                while !self.is_sym("}") {
                    items.push(self.world_item()?);
                }
                self.sym("}")?;
                Ok(json!({"Type": {"world": {"id": id, "items": items}}}))
            }
            "variant" | "record" | "flags" | "enum" | "type" => Ok(json!({"Type": {"type": self.type_decl()?}})),
            _ => self.err("expected statement"),
        }
    }

    fn import_statement(&mut self) -> R<Value> {
        self.kw("import")?;
        let id = self.id()?;
        let name = if self.is_kw("as") {
            self.pos += 1;
            self.ext_name()?
        } else {
            Value::Null
        };
        self.sym(":")?;
        let ty = if self.is_kind(Kind::PkgPath) {
            json!({"package": self.pkg_path()?})
        } else if self.is_kw("func") {
            json!({"func": self.func_type()?})
        } else if self.is_kw("interface") {
            json!({"interface": self.inline_interface()?})
        } else if self.is_kind(Kind::Ident) {
            json!({"ident": self.id()?})
        } else {
            return self.err("expected import type");
        };
        self.sym(";")?;
        Ok(json!({"id": id, "name": name, "ty": ty}))
    }

    fn inline_interface(&mut self) -> R<Value> {
        self.kw("interface")?;
        self.sym("{")?;
        let items = self.interface_items()?;
        self.sym("}")?;
        Ok(json!({"items": items}))
    }

    fn interface_items(&mut self) -> R<Vec<Value>> {
        let mut items = vec![];
        while !self.is_sym("}") {
            if self.is_kw("use") {
                items.push(json!({"use": self.use_type()?}));
            } else if self.is_kind(Kind::Ident) {
                let id = self.id()?;
                self.sym(":")?;
                let ty = if self.is_kw("func") {
                    json!({"func": self.func_type()?})
                } else if self.is_kind(Kind::Ident) {
                    json!({"ident": self.id()?})
                } else {
                    return self.err("expected func type or identifier");
                };
                self.sym(";")?;
                items.push(json!({"export": {"id": id, "ty": ty}}));
            } else if self.is_item_type_decl() {
                items.push(json!({"type": self.item_type_decl()?}));
            } else {
                return self.err("expected interface item");
            }
        }
        Ok(items)
    }

    fn is_item_type_decl(&self) -> bool {
        ["resource", "variant", "record", "flags", "enum", "type"].iter().any(|k| self.is_kw(k))
    }

    fn use_type(&mut self) -> R<Value> {
        self.kw("use")?;
        let path = if self.is_kind(Kind::PkgPath) {
            json!({"package": self.pkg_path()?})
        } else if self.is_kind(Kind::Ident) {
            json!({"ident": self.id()?})
        } else {
            return self.err("expected use path");
        };
        self.sym(".")?;
        self.sym("{")?;
        let min = if self.d.empty_use_items { 0 } else { 1 };
        let items = self.comma_list("}", min, "use items", |p| {
            let id = p.id()?;
            let as_id = if p.is_kw("as") {
                p.pos += 1;
                p.id()?
            } else {
                Value::Null
            };
            Ok(json!({"id": id, "asId": as_id}))
        })?;
        self.sym("}")?;
        self.sym(";")?;
        Ok(json!({"path": path, "items": items}))
    }

    fn world_item(&mut self) -> R<Value> {
        if self.is_kw("use") {
            Ok(json!({"use": self.use_type()?}))
        } else if self.is_kw("import") {
            self.pos += 1;
            let path = self.world_item_path()?;
            self.sym(";")?;
            Ok(json!({"import": {"path": path}}))
        } else if self.is_kw("export") {
            self.pos += 1;
            let path = self.world_item_path()?;
            self.sym(";")?;
            Ok(json!({"export": {"path": path}}))
        } else if self.is_kw("include") {
            self.pos += 1;
            let world = if self.is_kind(Kind::PkgPath) {
                json!({"package": self.pkg_path()?})
            } else if self.is_kind(Kind::Ident) {
                json!({"ident": self.id()?})
            } else {
                return self.err("expected world reference");
            };
            let mut with = vec![];
            if self.is_kw("with") {
                self.pos += 1;
                self.sym("{")?;
                let min = if self.d.empty_include_with { 0 } else { 1 };
                with = self.comma_list("}", min, "include-with items", |p| {
                    let from = p.id()?;
                    p.kw("as")?;
                    let to = p.id()?;
                    Ok(json!({"from": from, "to": to}))
                })?;
                self.sym("}")?;
            }
            self.sym(";")?;
            Ok(json!({"include": {"world": world, "with": with}}))
        } else if self.is_item_type_decl() {
            Ok(json!({"type": self.item_type_decl()?}))
        } else {
            self.err("expected world item")
        }
    }

    fn world_item_path(&mut self) -> R<Value> {
        if self.is_kind(Kind::PkgPath) {
            Ok(json!({"package": self.pkg_path()?}))
        } else if self.is_kind(Kind::Ident) {
            if matches!(self.peek2(), Some(t) if t.kind == Kind::Sym && t.text == ":") {
                let id = self.id()?;
                self.sym(":")?;
                let ty = if self.is_kind(Kind::Ident) {
                    json!({"ident": self.id()?})
                } else if self.is_kw("func") {
                    json!({"func": self.func_type()?})
                } else if self.is_kw("interface") {
                    json!({"interface": self.inline_interface()?})
                } else {
                    return self.err("expected extern type");
                };
                Ok(json!({"named": {"id": id, "ty": ty}}))
            } else {
                Ok(json!({"ident": self.id()?}))
            }
        } else {
            self.err("expected world item path")
        }
    }

    fn item_type_decl(&mut self) -> R<Value> {
        if self.is_kw("resource") {
            self.pos += 1;
            let id = self.id()?;
            let mut methods = vec![];
            if self.is_sym(";") {
                self.pos += 1;
            } else {
                self.sym("{")?;
                while !self.is_sym("}") {
                    if self.is_kw("constructor") {
                        self.pos += 1;
                        self.sym("(")?;
                        let params = self.named_types(")")?;
                        self.sym(")")?;
                        self.sym(";")?;
                        methods.push(json!({"constructor": {"params": params}}));
                    } else if self.is_kind(Kind::Ident) {
                        let id = self.id()?;
                        self.sym(":")?;
                        let is_static = if self.is_kw("static") {
                            self.pos += 1;
                            true
                        } else {
                            false
                        };
                        let ty = self.func_type()?;
                        self.sym(";")?;
                        methods.push(json!({"method": {"id": id, "isStatic": is_static, "ty": ty}}));
                    } else {
                        return self.err("expected resource item");
                    }
                }
                self.sym("}")?;
            }
            Ok(json!({"resource": {"id": id, "methods": methods}}))
        } else {
            self.type_decl()
        }
    }

    fn type_decl(&mut self) -> R<Value> {
        if self.is_kw("variant") {
            self.pos += 1;
            let id = self.id()?;
            self.sym("{")?;
            let cases = self.comma_list("}", 1, "variant cases", |p| {
                let id = p.id()?;
                let ty = if p.is_sym("(") {
                    p.pos += 1;
                    let t = p.ty()?;
                    p.sym(")")?;
                    t
                } else {
                    Value::Null
                };
                Ok(json!({"id": id, "ty": ty}))
            })?;
            self.sym("}")?;
            Ok(json!({"variant": {"id": id, "cases": cases}}))
        } else if self.is_kw("record") {
            self.pos += 1;
            let id = self.id()?;
            self.sym("{")?;
            let fields = self.comma_list("}", 1, "record fields", |p| p.named_type())?;
            self.sym("}")?;
            Ok(json!({"record": {"id": id, "fields": fields}}))
        } else if self.is_kw("flags") {
            self.pos += 1;
            let id = self.id()?;
            self.sym("{")?;
            let flags = self.comma_list("}", 1, "flags", |p| Ok(json!({"id": p.id()?})))?;
            self.sym("}")?;
            Ok(json!({"flags": {"id": id, "flags": flags}}))
        } else if self.is_kw("enum") {
            self.pos += 1;
            let id = self.id()?;
            self.sym("{")?;
            let cases = self.comma_list("}", 1, "enum cases", |p| Ok(json!({"id": p.id()?})))?;
            self.sym("}")?;
            Ok(json!({"enum": {"id": id, "cases": cases}}))
        } else if self.is_kw("type") {
            self.pos += 1;
            let id = self.id()?;
            self.sym("=")?;
            let kind = if self.is_kw("func") { json!({"func": self.func_type()?}) } else { json!({"type": self.ty()?}) };
            self.sym(";")?;
            Ok(json!({"alias": {"id": id, "kind": kind}}))
        } else {
            self.err("expected type declaration")
        }
    }

    fn named_type(&mut self) -> R<Value> {
        let id = self.id()?;
        self.sym(":")?;
        let ty = self.ty()?;
        Ok(json!({"id": id, "ty": ty}))
    }

    fn named_types(&mut self, close: &str) -> R<Vec<Value>> {
        self.comma_list(close, 0, "params", |p| p.named_type())
    }

    fn func_type(&mut self) -> R<Value> {
        self.kw("func")?;
        self.sym("(")?;
        let params = self.named_types(")")?;
        self.sym(")")?;
        let results = if self.is_sym("->") {
            self.pos += 1;
            if self.is_sym("(") {
                if self.d.no_named_results {
                    return self.err("named result lists are not accepted");
                }
                self.pos += 1;
                let named = self.comma_list(")", 1, "named results", |p| p.named_type())?;
                self.sym(")")?;
                json!({"named": named})
            } else if self.starts_type() {
                json!({"scalar": self.ty()?})
            } else if self.d.arrow_without_result {
                json!("empty")
            } else {
                return self.err("expected result type after `->`");
            }
        } else {
            json!("empty")
        };
        Ok(json!({"params": params, "results": results}))
    }

    fn starts_type(&self) -> bool {
        match self.peek() {
            Some(t) if t.kind == Kind::Ident => true,
            Some(t) if t.kind == Kind::Kw => {
                crate::gen::wacsyn::PRIMS.contains(&t.text.as_str()) || ["tuple", "list", "option", "result", "borrow"].contains(&t.text.as_str())
            }
            _ => false,
        }
    }

    fn ty(&mut self) -> R<Value> {
        let Some(t) = self.peek().cloned() else { return self.err("expected type") };
        if t.kind == Kind::Ident {
            return Ok(json!({"ident": self.id()?}));
        }
        if t.kind != Kind::Kw {
            return self.err("expected type");
        }
        let k = t.text.as_str();
        if crate::gen::wacsyn::PRIMS.contains(&k) {
            self.pos += 1;
            return Ok(json!({ k: null }));
        }
        match k {
            "tuple" => {
                self.pos += 1;
                self.sym("<")?;
                let types = self.comma_list(">", 1, "tuple types", |p| p.ty())?;
                self.sym(">")?;
                Ok(json!({"tuple": [types, null]}))
            }
            "list" | "option" => {
                self.pos += 1;
                self.sym("<")?;
                let t = self.ty()?;
                self.sym(">")?;
                Ok(json!({ k: [t, null] }))
            }
            "result" => {
                self.pos += 1;
                if !self.is_sym("<") {
                    return Ok(json!({"result": {"ok": null, "err": null}}));
                }
                self.pos += 1;
                let ok = if self.is_sym("_") {
                    self.pos += 1;
                    None
                } else {
                    Some(self.ty()?)
                };
                let err = if self.is_sym(",") {
                    self.pos += 1;
                    if self.is_sym("_") {
                        if !self.d.result_underscore_forms {
                            return self.err("`_` is not allowed as the error type");
                        }
                        self.pos += 1;
                        None
                    } else {
                        Some(self.ty()?)
                    }
                } else {
                    if ok.is_none() && !self.d.result_underscore_forms {
                        return self.err("`result<_>` is not a documented form");
                    }
                    None
                };
                self.sym(">")?;
                Ok(json!({"result": {"ok": ok, "err": err}}))
            }
            "borrow" => {
                self.pos += 1;
                self.sym("<")?;
                let inner = if self.d.borrow_id_only {
                    self.id()?
                } else {
                    let t = self.ty()?;
                    match t.get("ident") {
                        Some(i) => i.clone(),
                        // a non-identifier type inside borrow<> has no representation in wac's tree
                        None => json!({"non-identifier": t}),
                    }
                };
                self.sym(">")?;
                Ok(json!({"borrow": [inner, null]}))
            }
            _ => self.err("expected type"),
        }
    }

    fn let_statement(&mut self) -> R<Value> {
        self.kw("let")?;
        let id = self.id()?;
        self.sym("=")?;
        let expr = self.expr()?;
        self.sym(";")?;
        Ok(json!({"id": id, "expr": expr}))
    }

    fn export_statement(&mut self) -> R<Value> {
        self.kw("export")?;
        let expr = self.expr()?;
        let options = if self.is_sym("...") {
            self.pos += 1;
            json!({"spread": null})
        } else if self.is_kw("as") {
            self.pos += 1;
            json!({"rename": self.ext_name()?})
        } else {
            json!("none")
        };
        self.sym(";")?;
        Ok(json!({"expr": expr, "options": options}))
    }

    fn expr(&mut self) -> R<Value> {
        let primary = if self.is_kw("new") {
            self.pos += 1;
            let package = self.pkg_name()?;
            self.sym("{")?;
            // EBNF + T1 (`...` in any position) + T2 (empty list)
            let arguments = self.comma_list("}", 0, "arguments", |p| {
                if p.is_sym("...") {
                    p.pos += 1;
                    if p.is_kind(Kind::Ident) {
                        Ok(json!({"spread": p.id()?}))
                    } else {
                        Ok(json!({"fill": null}))
                    }
                } else if p.is_kind(Kind::Ident) || p.is_kind(Kind::Str) {
                    if matches!(p.peek2(), Some(t) if t.kind == Kind::Sym && t.text == ":") {
                        let name = p.ext_name()?;
                        p.sym(":")?;
                        let expr = p.expr()?;
                        Ok(json!({"named": {"name": name, "expr": expr}}))
                    } else if p.is_kind(Kind::Ident) {
                        Ok(json!({"inferred": p.id()?}))
                    } else {
                        p.pos += 1;
                        p.err("a string argument name must be followed by `:`")
                    }
                } else {
                    p.err("expected instantiation argument")
                }
            })?;
            self.sym("}")?;
            json!({"new": {"package": package, "arguments": arguments}})
        } else if self.is_sym("(") {
            self.pos += 1;
            let inner = self.expr()?;
            self.sym(")")?;
            json!({"nested": {"inner": inner}})
        } else if self.is_kind(Kind::Ident) {
            json!({"ident": self.id()?})
        } else {
            return self.err("expected expression");
        };
        let mut postfix = vec![];
        loop {
            if self.is_sym(".") {
                self.pos += 1;
                postfix.push(json!({"access": {"id": self.id()?}}));
            } else if self.is_sym("[") {
                self.pos += 1;
                let s = self.string()?;
                self.sym("]")?;
                postfix.push(json!({"namedAccess": {"string": s}}));
            } else {
                break;
            }
        }
        Ok(json!({"primary": primary, "postfix": postfix}))
    }
}

/// Reference verdict: `Ok(tree)` if `src` is in the language of dialect `d`.
pub fn recognise(src: &str, d: &Dialect) -> Result<Value, Reject> {
    let toks = tokenize(src, d)?;
    let mut p = Parser { toks: &toks, pos: 0, d: *d, end: src.len() };
    p.document()
}

/// Number of reference tokens (0 if the text does not tokenise).
pub fn token_count(src: &str) -> usize {
    tokenize(src, &Dialect::DOCUMENTED).map(|t| t.len()).unwrap_or(0)
}
