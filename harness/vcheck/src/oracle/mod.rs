pub mod gram;
pub mod wire;
