pub mod gram;
