//! Thin wrappers around the wac-parser entry points used by several properties.

use serde_json::Value;
use wac_parser::{Document, DocumentPrinter};

#[derive(Debug, Clone)]
pub struct ParseFailure {
    pub message: String,
    pub variant: String,
    pub offset: usize,
    pub len: usize,
}

pub fn error_span(e: &wac_parser::Error) -> (usize, usize) {
    use wac_parser::Error::*;
    let s = match e {
        Lexer { span, .. } | Expected { span, .. } | ExpectedEither { span, .. } | ExpectedMultiple { span, .. } | EmptyType { span, .. } | InvalidVersion { span, .. } => *span,
    };
    (s.offset(), s.len())
}

pub fn error_variant(e: &wac_parser::Error) -> &'static str {
    use wac_parser::Error::*;
    match e {
        Lexer { .. } => "Lexer",
        Expected { .. } => "Expected",
        ExpectedEither { .. } => "ExpectedEither",
        ExpectedMultiple { .. } => "ExpectedMultiple",
        EmptyType { .. } => "EmptyType",
        InvalidVersion { .. } => "InvalidVersion",
    }
}

/// Parse and serialise (raw serde tree, spans included).
pub fn parse_tree(text: &str) -> Result<Value, ParseFailure> {
    match Document::parse(text) {
        Ok(doc) => Ok(serde_json::to_value(&doc).expect("serialise document")),
        Err(e) => {
            let (offset, len) = error_span(&e);
            Err(ParseFailure { message: e.to_string(), variant: error_variant(&e).to_string(), offset, len })
        }
    }
}

/// Parse then print with the default indentation.
pub fn parse_print(text: &str) -> Result<(Value, String), ParseFailure> {
    match Document::parse(text) {
        Ok(doc) => {
            let mut s = String::new();
            DocumentPrinter::new(&mut s, text, None).document(&doc).expect("printing to a String cannot fail");
            Ok((serde_json::to_value(&doc).expect("serialise document"), s))
        }
        Err(e) => {
            let (offset, len) = error_span(&e);
            Err(ParseFailure { message: e.to_string(), variant: error_variant(&e).to_string(), offset, len })
        }
    }
}

/// First path at which two JSON values differ ("" if equal).
pub fn first_diff(a: &Value, b: &Value) -> Option<String> {
    fn go(a: &Value, b: &Value, path: &mut String) -> bool {
        match (a, b) {
            (Value::Object(x), Value::Object(y)) => {
                let mut keys: Vec<&String> = x.keys().chain(y.keys()).collect();
                keys.sort();
                keys.dedup();
                for k in keys {
                    let l = path.len();
                    path.push('.');
                    path.push_str(k);
                    match (x.get(k), y.get(k)) {
                        (Some(p), Some(q)) => {
                            if go(p, q, path) {
                                return true;
                            }
                        }
                        _ => return true,
                    }
                    path.truncate(l);
                }
                false
            }
            (Value::Array(x), Value::Array(y)) => {
                for i in 0..x.len().max(y.len()) {
                    let l = path.len();
                    path.push_str(&format!("[{i}]"));
                    match (x.get(i), y.get(i)) {
                        (Some(p), Some(q)) => {
                            if go(p, q, path) {
                                return true;
                            }
                        }
                        _ => return true,
                    }
                    path.truncate(l);
                }
                false
            }
            _ => a != b,
        }
    }
    let mut p = String::new();
    if go(a, b, &mut p) {
        Some(p)
    } else {
        None
    }
}

pub fn at_path<'a>(v: &'a Value, path: &str) -> Option<&'a Value> {
    let mut cur = v;
    let mut rest = path;
    while !rest.is_empty() {
        if let Some(r) = rest.strip_prefix('.') {
            let end = r.find(['.', '[']).unwrap_or(r.len());
            cur = cur.get(&r[..end])?;
            rest = &r[end..];
        } else if let Some(r) = rest.strip_prefix('[') {
            let end = r.find(']')?;
            cur = cur.get(r[..end].parse::<usize>().ok()?)?;
            rest = &r[end + 1..];
        } else {
            return None;
        }
    }
    Some(cur)
}

/// Replace array indices by `[]` so a path can be used in a signature.
pub fn generic_path(p: &str) -> String {
    let mut out = String::new();
    let mut in_idx = false;
    for c in p.chars() {
        if c == '[' {
            in_idx = true;
            out.push_str("[]");
        } else if c == ']' {
            in_idx = false;
        } else if !in_idx {
            out.push(c);
        }
    }
    out
}

/// All `.wac` files shipped in the repository.
pub fn repo_wac_files() -> Vec<(String, String)> {
    fn walk(dir: &std::path::Path, out: &mut Vec<(String, String)>) {
        let Ok(rd) = std::fs::read_dir(dir) else { return };
        let mut entries: Vec<_> = rd.filter_map(|e| e.ok()).collect();
        entries.sort_by_key(|e| e.path());
        for e in entries {
            let p = e.path();
            if p.is_dir() {
                let name = p.file_name().and_then(|n| n.to_str()).unwrap_or("");
                if name == "target" || name == ".git" {
                    continue;
                }
                walk(&p, out);
            } else if p.extension().and_then(|e| e.to_str()) == Some("wac") {
                if let Ok(s) = std::fs::read_to_string(&p) {
                    out.push((p.display().to_string(), s));
                }
            }
        }
    }
    let mut out = vec![];
    walk(std::path::Path::new("/repo"), &mut out);
    out
}
