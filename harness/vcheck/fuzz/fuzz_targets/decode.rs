//! Coverage-guided companion of C14/C08 on package bytes: `Package::from_bytes` returns for every input;
//! what it accepts encodes again in import mode without a panic.
#![no_main]
use libfuzzer_sys::fuzz_target;
use std::sync::OnceLock;
use vcheck::engine::{glob_match, guarded, install_quiet_panic_hook, load_known, panic_sig, KnownFinding};

fn known() -> &'static Vec<KnownFinding> {
    static K: OnceLock<Vec<KnownFinding>> = OnceLock::new();
    K.get_or_init(|| {
        install_quiet_panic_hook();
        let mut k = load_known("C14");
        k.extend(load_known("C08"));
        k.extend(load_known("C01"));
        k
    })
}

fn report(sig: &str, msg: &str) {
    if known().iter().any(|k| glob_match(&k.key, sig)) {
        return;
    }
    eprintln!("FUZZ-VIOLATION sig={sig}\n{msg}");
    std::process::abort();
}

fuzz_target!(|data: &[u8]| {
    let _ = known();
    let r = guarded(|| {
        let mut g = wac_graph::CompositionGraph::new();
        let pkg = wac_types::Package::from_bytes("test:pkg", None, data.to_vec(), g.types_mut());
        match pkg {
            Err(_) => None,
            Ok(p) => {
                let id = g.register_package(p).ok()?;
                g.instantiate(id);
                Some(g)
            }
        }
    });
    match r {
        Err(p) => report(&format!("C14/panic:decode:{}", panic_sig(&p)), &p),
        Ok(None) => {}
        Ok(Some(g)) => {
            for define_components in [false, true] {
                if let Err(p) = guarded(|| g.encode(wac_graph::EncodeOptions { define_components, validate: false, processor: None })) {
                    report(&format!("C01/panic:encode:{}", panic_sig(&p)), &p);
                }
            }
        }
    }
});
