//! Coverage-guided companion of C12/C13/C14: the first byte selects a package universe, the rest is the
//! document.  Oracles (all inside the target, shared with the property checks):
//!  * C14 — every stage returns, diagnostics point inside the source (`props::c14::front_end`);
//!  * C13 — print . parse round trip on everything the parser accepts (`props::c13::check_text`);
//!  * C12 — membership and tree agree with the reference recogniser (`props::c12::decide`).
//! Listed known findings are tolerated in-target (so that a campaign does not rediscover one crash
//! forever); anything else aborts with the signature on stderr.
#![no_main]
use libfuzzer_sys::fuzz_target;
use std::sync::OnceLock;
use vcheck::engine::{glob_match, install_quiet_panic_hook, load_known, KnownFinding, Verdict};
use vcheck::props::{c12, c13, c14};

fn known() -> &'static Vec<KnownFinding> {
    static K: OnceLock<Vec<KnownFinding>> = OnceLock::new();
    K.get_or_init(|| {
        install_quiet_panic_hook();
        let mut k = load_known("C12");
        k.extend(load_known("C13"));
        k.extend(load_known("C14"));
        k
    })
}

fn report(sig: &str, msg: &str) {
    if known().iter().any(|k| glob_match(&k.key, sig)) {
        return;
    }
    eprintln!("FUZZ-VIOLATION sig={sig}\n{msg}");
    std::process::abort();
}

/// nesting beyond this depth is the listed C14 stack-overflow finding; it cannot be caught in-process
fn too_deep(text: &str) -> bool {
    let mut depth = 0i32;
    let mut max = 0;
    for b in text.bytes() {
        match b {
            b'(' | b'<' | b'{' | b'[' => {
                depth += 1;
                max = max.max(depth);
            }
            b')' | b'>' | b'}' | b']' => depth -= 1,
            _ => {}
        }
    }
    max > 120 || text.matches("new ").count() > 60
}

fuzz_target!(|data: &[u8]| {
    if data.is_empty() {
        return;
    }
    let Ok(text) = std::str::from_utf8(&data[1..]) else { return };
    if too_deep(text) {
        return;
    }
    let fixtures = c14::fixtures();
    let pkgs = &fixtures[data[0] as usize % fixtures.len()].packages;
    let mut st = c14::Stages::default();
    if let Err((sig, msg)) = c14::front_end(text, pkgs, &mut st) {
        report(&sig, &msg);
    }
    if st.parsed {
        if let Verdict::Fail { sig, msg } = c13::check_text(text, vec![], true).verdict {
            report(&sig, &msg);
        }
    }
    if let (Some((sig, msg)), _, _) = c12::decide(text) {
        report(&sig, &msg);
    }
});
