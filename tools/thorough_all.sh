#!/bin/bash
# tools/thorough_all.sh <seed> — every thorough command once with the given seed; summary lines only
cd /verif
for id in C01 C02 C03 C04 C05 C06 C07 C08 C09 C10 C11 C12 C13 C15 C17 C18 C20 C16 C19 C14; do
  cmd=$(python3 -c "import json;m=json.load(open('/verif/MANIFEST.json'));print([c['thorough_cmd'] for c in m['checks'] if c['property_id']=='$id'][0])")
  out=$(VERIF_SEED=$1 bash -c "$cmd" 2>&1); rc=$?
  echo "== $id rc=$rc"
  echo "$out" | grep -E "VIOLATION|sig=|BROKEN|thorough seed|FUZZ|INCONCLUSIVE" | cut -c1-260 | head -12
done
