#!/bin/bash
# tools/confirm_seed.sh <PROP> <m> <crate> <tests_dir-relative-to-worktree>
# Confirms a sub-agent's seeded change in its own scratch worktree /tmp/wt-<PROP>:
#   with the patch: builds, existing suite passes, demo FAILS;  without: demo PASSES.
# On success stores it as /verif/seeded/<PROP>-<m>/ (patch.diff, demo.rs, meta.json, confirm.log).
set -u
PROP=$1; M=$2; CRATE=$3; TDIR=$4
WT=/tmp/${WTP:-wt}-$PROP; OUT=$WT/_out/$M
export CARGO_TARGET_DIR=$WT/target CARGO_NET_OFFLINE=true RUST_BACKTRACE=0
LOG=$OUT/confirm.log; : > $LOG
cd $WT || exit 2
git checkout -q -- . ; rm -f $TDIR/seed_demo.rs
run_demo() { mkdir -p $TDIR; cp $OUT/demo.rs $TDIR/seed_demo.rs; if [ "$CRATE" = WORKSPACE ]; then cargo test --workspace --test seed_demo --offline >>$LOG 2>&1; else cargo test -p $CRATE --test seed_demo --offline >>$LOG 2>&1; fi; rc=$?; rm -f $TDIR/seed_demo.rs; return $rc; }
echo "== demo on pristine" >>$LOG
run_demo; PRISTINE=$?
git apply $OUT/patch.diff || { echo "patch does not apply" | tee -a $LOG; exit 2; }
echo "== demo with patch" >>$LOG
run_demo; WITH=$?
echo "== suite with patch" >>$LOG
cargo test --workspace --no-fail-fast --offline >>$LOG 2>&1; SUITE=$?
git checkout -q -- .
echo "RESULT $PROP-$M demo_pristine_rc=$PRISTINE demo_with_patch_rc=$WITH suite_with_patch_rc=$SUITE" | tee -a $LOG
if [ $PRISTINE -eq 0 ] && [ $WITH -ne 0 ] && [ $SUITE -eq 0 ]; then
  D=/verif/seeded/$PROP-$M; mkdir -p $D
  cp $OUT/patch.diff $OUT/demo.rs $D/
  python3 - "$OUT/meta.json" "$D/meta.json" "$PROP" "$CRATE" "$TDIR" <<'PY'
import json,sys
src,dst,prop,crate,tdir=sys.argv[1:]
m=json.load(open(src))
m["property"]=prop
m["confirmed"]={"how":"tools/confirm_seed.sh in the sub-agent's scratch worktree: demo passes on pristine HEAD, fails with patch.diff applied; `cargo test --workspace --no-fail-fast --offline` (RUST_BACKTRACE=0) passes with the patch","demo_crate":crate,"demo_tests_dir":tdir,"demo_pristine_rc":0,"demo_with_patch":"fails","suite_with_patch_rc":0}
json.dump(m,open(dst,"w"),indent=1)
PY
  grep -E "^test result|RESULT" $LOG | tail -30 > $D/confirm.log
  echo "KEPT $D"
else
  echo "NOT KEPT $PROP-$M"
fi
