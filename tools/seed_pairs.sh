#!/bin/bash
# tools/seed_pairs.sh <out-file> SEED:CHECK ... — like seed_matrix.sh for an explicit list of pairs
OUT=$1; shift
: > $OUT
for p in "$@"; do
  s=${p%%:*}; c=${p##*:}
  S=/verif/seeded/$s; P=$S/patch.diff; [ -f $S/patch.ported.diff ] && P=$S/patch.ported.diff
  if git -C /repo apply $P 2>/dev/null; then
    r=$(/verif/run.sh $c quick 2>&1 | grep -E "sig=|BROKEN|BUILD-FAILED" | head -1 | sed 's/^ *//' | cut -c1-150)
    [ -z "$r" ] && r="MISSED"
  else
    r="PATCH-DOES-NOT-APPLY"
  fi
  git -C /repo checkout -- .
  rm -rf /verif/replays/$c
  echo "$s $c $r" >> $OUT
done
(cd /verif/harness && cargo build --release --offline -p vcheck -p fs_nowat -p c20reg >/dev/null 2>&1)
(cd /repo && CARGO_TARGET_DIR=/verif/harness/target/wac-cli cargo build --release --offline --bin wac >/dev/null 2>&1)
echo done >> $OUT
