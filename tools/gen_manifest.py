#!/usr/bin/env python3
"""Regenerates /verif/MANIFEST.json from the table below (keeps it schema-valid at all times)."""
import json, sys
ALL = ["C%02d" % i for i in range(1, 21)]

CHECKS = {
 "C15": dict(
   category="exploration",
   text="Exhaustive enumeration of the statement's small name universe (all ordered pairs, all triples for transitivity, every insertion order of every <=4-subset followed by every lookup) plus seeded random names, each compared with a reference semver-track relation and reference map written from the statement. Exhaustive for the enumerated universe; random elsewhere.",
   note="Trusts the `semver` crate for version validity and precedence. Versions that differ only in build metadata are treated as a tie (either answer accepted).",
   technique="property-based testing: exhaustive small-scope enumeration + proptest random generation against a reference model of the semver track relation and of the name map",
   design="C15"),
}

def main():
    checks = []
    for pid in ALL:
        if pid not in CHECKS: continue
        c = CHECKS[pid]
        checks.append({
            "property_id": pid,
            "quick_cmd": f"./run.sh {pid} quick",
            "thorough_cmd": f"./run.sh {pid} thorough",
            "evidence_file": f"/verif/evidence/{pid}.json",
            "replay_cmd_template": f"./run.sh {pid} quick --replay {{path}}",
            "engine": "vcheck",
            "level_claimed": {"category": c["category"], "text": c["text"], "design_ref": "DESIGN.md §4 " + c["design"]},
            "level_note": c["note"],
            "technique": c["technique"],
        })
    na = [{"property_id": p, "reason": "check not built yet in this round (planned: see DESIGN.md §4); nothing is claimed for it"} for p in ALL if p not in CHECKS]
    m = {
        "version": 1,
        "setup_cmd": "./setup.sh",
        "hooks": {
            "guard": "wac_verif",
            "enable": "RUSTFLAGS=--cfg wac_verif (set through /verif/harness/.cargo/config.toml build.rustflags; the harness path-depends on /repo/crates/*)",
            "baseline_off_cmd": "cd /repo && cargo test --workspace --no-fail-fast --offline",
            "source_commits": HOOK_COMMITS,
            "add_only": True,
        },
        "engines": [{"name": "vcheck", "path": "/verif/harness/vcheck", "serves_properties": [c["property_id"] for c in checks],
                     "kind_free_text": "Rust driver: seeded proptest generators sharded over 16 threads, manual shrinking, exhaustive small-scope enumerators, reference models/oracles, evidence + replay writer"}],
        "checks": checks,
        "not_applicable": na,
        "notes": "Exit codes of every command: 0 held, 1 VIOLATION line printed, 2 inconclusive/broken check (never a violation). known_findings.json lists recorded genuine defects.",
    }
    json.dump(m, open("/verif/MANIFEST.json", "w"), indent=1)
    print("wrote MANIFEST.json with", len(checks), "checks;", len(na), "not_applicable")

HOOK_COMMITS = []
if __name__ == "__main__":
    main()
