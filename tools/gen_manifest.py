#!/usr/bin/env python3
"""Regenerates /verif/MANIFEST.json from the table below (keeps it schema-valid at all times)."""
import json, sys
ALL = ["C%02d" % i for i in range(1, 21)]

CHECKS = {
 "C01": dict(
   category="exploration",
   text="Generated component libraries (reference toolchain: wit-parser + wit-component; plus hand-shaped WAT packages) x operation histories on the public graph API x the four encode option combinations. Every Ok result must be accepted by wasmparser's validator (also with validate:false); every Err must be a documented cycle / import-conflict / merge-conflict error justified by the graph's own listing, never ValidationFailure and never a panic; the four option combinations must agree on the outcome class. Label floors require diamonds, several instantiations of one package, explicit imports, resources, cross-interface use, several API versions, shaped packages and both dependency modes to occur.",
   note="Libraries contain only components the reference toolchain produced and validated. Generator rejections by the reference side are counted (generator_invalid) and never reported as defects. Known findings are keyed by validator-message class plus a coarse shape of the failing composition.",
   technique="property-based testing: generated libraries + stateful API histories, independent reference validator as oracle (proptest)",
   design="C01"),
 "C02": dict(
   category="translation_validation",
   text="Every encodable composition produced by the C01 generators is encoded in both dependency modes, decoded by an independent payload-level reader (O-wire: no validator, no wac code) and compared with the graph read through public queries plus the list of arguments/exports the history designated: embedded components byte-identical to registered packages and one per instantiated package (or one unlocked-dep import each), instantiations compared as multisets of canonical signatures (package, node name, every argument followed through alias/export chains to its origin), each export bound to the designated item with the right kind and no extra exports, name-section entries mapped to the named nodes.",
   note="Isomorphism is up to unnamed nodes with identical recursive signatures. Which import an implicit argument binds to is compared up to its semver track (exact naming is C03's). O-wire is trusted to read section payloads correctly (built on wasmparser::Parser only).",
   technique="property-based testing: translation validation of generated compositions with an independent binary decoder (proptest)",
   design="C02"),
 "C03": dict(
   category="exploration",
   text="Compositions from generated libraries (several versions of one API package, `use`-dependent interfaces, versioned shaped packages) x graph histories with chosen arguments left unsatisfied and explicit imports on the same name / same track / unrelated names. The decoded import and export sections must be exactly what the history implies: names grouped by a reference semver track, one import per group named for the highest version, instance imports offering (at least) the union of the sharers' export names, used interfaces allowed, nothing else; exports exactly the designated names and kinds; agreement with CompositionGraph::imports(); ImplicitImportConflict exactly when predicted. Each composition is rebuilt in five other node-creation orders and must give the same outcome class and decoded interface.",
   note="T7 and its analogue for used interfaces: when an explicit import or a used interface of another version is on the track of an unsatisfied argument the statement does not fix whether they merge, so those groups are checked with a relaxed rule (no invented names; arguments served by an import at least as high as their highest version). Sharer requirements and `uses` provenance are read from wac's decoded package worlds (decoder fidelity is C08's).",
   technique="property-based testing: model-predicted interface from the operation history + metamorphic permutation of creation order, independent binary decoder (proptest)",
   design="C03"),
 "C04": dict(
   category="exploration",
   text="A library of 1-4 generated components (names from plain names and interface paths with and without versions, two paths sharing a last segment, a plain name equal to a last segment, a name that is a suffix of another's last segment; types from 5 shapes with a known subtype table) plus four WIT packages, and a program of up to 9 statements built by a semantic generator (imports with inline/func/path types and `as`; `new` with named (identifier and string), inferred, spread and fill arguments, nested `new`, access, named access, parentheses; exports plain / `as` / spread) plus 11 single-fault variants. O-eval, an evaluator written from LANGUAGE.md, yields the diagnostic classes of the first ill-formed statement or the wiring; wac must reject with one of those classes, or produce an output whose section-level decoding has the same instantiation signatures (every argument's binding), export names and bindings, and imports.",
   note="Tolerances: T3 (literal name and unique path suffix both match), an explicit import on the semver track of an implicit import (C03's T7). `export e` without `as` mirrors argument inference (path of an instance first, else imported/accessed name), as the resolver's doc comments state. Conflicting implicit imports are expected to be refused at encode time (documented); whether the merge itself is right is C03/C09's obligation.",
   technique="property-based testing: semantic program generation + reference evaluator (model-based oracle), wiring compared through an independent section-level decoder (proptest)",
   design="C04"),
 "C05": dict(
   category="exploration",
   text="One package text inside the shared WIT/WAC subset (interfaces with every value-type constructor, resources with constructors/methods/statics, borrows, `use` with renames in chains and diamonds; worlds with path/named/inline imports and exports and `include` with and without renames; unversioned and versioned) is encoded by wit-parser + wit-component and by wac. Both binaries are nested in one outer component; every exported interface type must be a mutual subtype of the reference's under the validator's own relation; every world type must be a mutual subtype of the reference world (R1), or of the reference world of the package in which interfaces reached only through `use` are reduced to their types (R2), or have exactly the model's explicit imports/exports with item-wise mutually-subtype types.",
   note="Tolerance T8: an explicit world item that carries resources cannot be judged in isolation by the validator's relation (it does not open resources); such a world is inconclusive when neither R1 nor R2 matches. A panic inside the reference relation is inconclusive too. Declaration order follows the generator (definitions before uses), as WAC requires.",
   technique="property-based testing: differential against the reference WIT toolchain, compared with the reference validator's subtype relation in both directions (proptest)",
   design="C05"),
 "C06": dict(
   category="exploration",
   text="Operation histories over the public CompositionGraph API on a tiny universe are run against a reference model written from the method docs: exhaustively for all sequences up to length 3 (quick) / 4 (thorough) over a 22-op alphabet from three start states, and randomly up to 60 ops with removal and re-creation. After every step the call's result class, every query (nodes, kinds, names, exports, imports(), arguments, alias sources, packages) and the guarded invariant hook are checked; every 4th step and at the end the graph must encode to a result class the model's state justifies and to bytes the reference validator accepts; clones are swapped in mid-history.",
   note="Only live identifiers are passed. Readings taken for under-specified points: export of an already exported node adds a name, unexport removes all names, define_type of a defined type is TypeAlreadyDefined. The invariant hook (cfg wac_verif) is trusted to read the private fields faithfully.",
   technique="property-based testing: stateful model-based testing (op sequences as vec(op) + interpreter, reference model, invariant hook), exhaustive short histories + proptest random long ones",
   design="C06"),
 "C07": dict(
   category="exploration",
   text="Batches of up to 28 resource-free item kinds (a base kind plus its whole single-feature mutation neighbourhood, plus random kinds) are emitted as one component importing each kind; wasmparser's own ComponentEntityType::is_subtype_of on the validated component gives the reference verdict for every ordered pair. wac must agree through SubtypeChecker (fresh memo, two independent decodes, cross-collection, one memo shared over all pairs in scrambled order), be reflexive across decodes and transitive, and through set_instantiation_argument on a graph whose memo persists over two sweeps in opposite orders. The neighbourhoods of 21 fixed bases are enumerated on every run.",
   note="Only the resource-free clause is decided here; 'accepting all of one provider's exports implies the instantiation validates' is exercised by C01's validation of accepted wirings. Named record/variant/enum/flags types are only used in top-level function and type kinds.",
   technique="property-based testing: differential against the reference validator's subtype relation over mutation neighbourhoods and random kinds (proptest)",
   design="C07"),
 "C08": dict(
   category="exploration",
   text="Components produced by the reference toolchain from generated WIT worlds (plus fixed deep `use` chains and 26 hand-shaped WAT components) are decoded with Package::from_bytes and compared recursively with wasmparser's own typed view: import/export names in order (independent section reader), kinds, function parameter names/order/result/async, value types, record/variant/enum/flags members, resource identity as a bijection, instance type = exports, `use` provenance against the generating WIT model; two independent decodes must be mutual subtypes; and one instantiation encoded with define_components:false is nested with the original in one outer component, where the validator's own subtype relation must say original <: the unlocked-dep import type.",
   note="`use` provenance accepts the syntactic source or any interface up the chain to the defining one (wac records the owner). Types the reference toolchain elides from a component are not expected. Shaped components that wac rejects with an error (unsupported features) are counted, not failed.",
   technique="property-based testing: differential against the reference validator's typed view and subtype relation; generator-known provenance (proptest)",
   design="C08"),
 "C09": dict(
   category="exploration",
   text="The components of a generated library are decoded into separate type collections and contribute all their imports; every permutation (up to 120) of 2-5 contributors is aggregated. Success must equal the model's prediction (conflict exactly when one bare function name is required with two signatures) and be identical under every order; import names and a structural description of every merged type must be identical under every order; one import per reference semver track named for the highest version with canonical_import_name redirecting every lower name; every contributor's requirement is covered export by export with a structurally equal item (independent walk; wac's checker as secondary witness); aggregating everything twice changes nothing.",
   note="Contributors are real components, so a used interface is always also a direct requirement of its contributor; requirements reached only through `use` (possible at the API level when the direct argument is satisfied elsewhere) are not generated. Versions of the API package differ by added functions only (compatible by construction).",
   technique="property-based testing: algebraic laws (commutativity over all permutations, idempotence, upper bound) + model-predicted conflicts (proptest)",
   design="C09"),
 "C10": dict(
   category="exploration",
   text="A socket and an ordered list of 1-4 plugs are drawn from the components of a generated library (interfaces of one API package at several versions; bare functions renamed so that plug exports collide with socket imports, with equal or different signatures; sockets importing two versions of one interface). A reference plug algorithm written from the statement predicts Ok / NoPlugHappened / GraphError and the supplier of every socket import; on Ok the socket's arguments must be exactly the predicted suppliers, idle plugs neither instantiated nor embedded, the encoded result must validate, import every unsupplied socket import and export exactly the socket's exports, each an alias of the socket instance.",
   note="Compatibility for API interfaces comes from the generator's model (cross-checked against the validator's relation where no abstract resource is involved), for bare functions from the validator's relation. Tolerance T4 (socket with two imports on one track): only exact-name offers are prescribed. A documented merge refusal among leftover imports at encode time is not counted against plug. Two invalid-output classes shared with C01 are listed known findings.",
   technique="property-based testing: differential against a reference plug algorithm + validity/wiring predicates over the decoded output (proptest)",
   design="C10"),
 "C11": dict(
   category="exploration",
   text="A target world (API interfaces at several versions incl. interfaces that use others, bare functions, inline interfaces) and a component built by the reference toolchain for that world after 0-2 perturbations (dropped/extra import or export, changed function signature, another version of an interface, inline interface with a function more or less, an import replaced by the interfaces it uses). A model of both sides (cross-checked against what the toolchain built) predicts the set of conformance violations. Document::resolve — with the world from a WIT package and with the same world declared in the document — must accept iff the set is empty and otherwise name a predicted violation; wac_types::validate_target on the encoded output must report exactly the predicted set; both verdicts must coincide; for resource-free worlds the reference validator's component subtyping output <: world must agree; the targets clause must not change the bytes.",
   note="The composition is always `let c = new test:c0 { ... }; export c...;`, so its externs are those of the generated component. Expected sets are computed under exact-name lookup (resolver) and semver-aware lookup (stand-alone check); their documented disagreement for semver-near names is a listed known finding, as are two limitations of worlds declared in the document (partial view of a used interface; use chains).",
   technique="property-based testing: model-predicted verdicts over perturbed (world, composition) pairs, differential between resolver, stand-alone check and the reference validator's subtyping (proptest)",
   design="C11"),
 "C19": dict(
   category="exploration",
   text="The `wac` binary is built from the working tree and run (empty HOME, scratch directory per case) on: compose — programs of C04's semantic generator and hand-made compositions that only validation rejects, optionally damaged (syntax error, missing/corrupt package file, a package moved away and named with --dep, with and without a decoy left behind) x --import-dependencies x --no-validate x -t x -o x --deps-dir (all 32 flag combinations on the hand-made ones); plug — sockets and 1-4 plugs of C10's generator as files (optionally two plugs with one file stem) x -t x -o; parse — grammar-generated and damaged documents; targets — generated world/component pairs with drops, extras and type changes x --world. Every observable is compared with the same pipeline executed in-process through the library with the options the documentation assigns to the flags: exit 0 iff it succeeds; stdout / the -o file equal the library's bytes; -t output equals the text form of those bytes, assembles, validates and decodes to the same wiring; on failure a diagnostic, empty stdout and no output file; dependencies embedded vs imported as documented.",
   note="A package missing from the file system makes the CLI try the default registry, which fails fast in the sealed sandbox (no configuration, no network); `--registry` is C20's subject and not exercised here. The binary is the CLI's default feature set (no `wat` feature: packages are .wasm files).",
   technique="property-based testing: differential between the built CLI and the in-process library pipeline over generated inputs x flag combinations (proptest, subprocess per case)",
   design="C19"),
 "C20": dict(
   category="exploration",
   text="One in-process Warg server on 127.0.0.1 per run (the repository's own test recipe) holds 5 packages with 0-3 releases each, published out of version order, with contents between a few bytes and 300 kB. Key sets of 1-6 distinct keys from a pool of 17 (every published name/version, unversioned references, a missing version, a package without releases, a package that does not exist) are resolved in generated request orders through RegistryPackageResolver::resolve on tokio runtimes with 1, 2 or 8 workers, with a cold or warm client cache; all request orders of selected key sets are enumerated. Every requested key must be present with exactly the bytes published under (name, version) or under the highest release; with unresolvable keys the error variant and the package/version it names must belong to one of them.",
   note="Download completion orders are perturbed (content sizes, worker counts, cache state), not enumerated. The check lives in its own harness crate (c20reg) because it links the Warg server.",
   technique="property-based testing: model-based oracle (what was published) over generated key sets, request orders and runtime configurations (proptest + exhaustive permutations of selected sets)",
   design="C20"),
 "C12": dict(
   category="exploration",
   text="Grammar-derived documents (own AST model, random layout) must parse to the derivation's tree; all single-token deletions/duplications/swaps and a fixed third of an 18-token substitution pool per position, raw insertions (forbidden code points, quotes, comment openers, separators, malformed versions) and ~140 hand-written near-miss forms are decided by a reference tokenizer+recogniser written from LANGUAGE.md; wac must agree on membership, on the tree when both accept, and locate its error inside the source when both reject.",
   note="Reference recogniser follows LANGUAGE.md's EBNF with tolerances T1/T2 (position of `...`, empty argument lists: rejected later by the resolver / used throughout the prose) and upper-case words (pinned lexer test). Version validity delegated to the `semver` crate. Deviations of the pinned parser from the EBNF are attributed by name; three are listed known findings.",
   technique="property-based testing: grammar-based generation + exhaustive single-token mutation per document, differential against a reference recogniser (proptest, manual shrinking)",
   design="C12"),
 "C13": dict(
   category="exploration",
   text="For grammar-derived documents with random layout/comments and every .wac file shipped in the repository: print(parse(s)) re-parses, span-stripped trees (plus the exact source text of every identifier/package name/path; docs flattened per T6) are equal, and printing again is byte-identical. Label floors make the run fail if any construct named in the statement stops being generated.",
   note="Inputs the parser rejects are outside the domain (counted as foreign). T6: doc comments compared as non-empty trimmed lines.",
   technique="property-based testing: round-trip and idempotence oracle over grammar-generated documents and the repository corpus (proptest)",
   design="C13"),
 "C14": dict(
   category="exploration",
   text="Total-function oracle over ~190k (quick) generated inputs: repository fixtures with their packages under 0-3 byte/substring mutations and missing/rotated/corrupted packages, grammar-generated documents with mutations, arbitrary Unicode, package byte strings (fixture packages, 16 shaped WAT components, WASI dummies) with mutations, every truncation point, random bytes; plus a nesting ladder run in a supervised worker process so stack overflows are observed from the wait status. Panics are caught and attributed to their site; every span in trees and diagnostic labels must be inside the source on char boundaries; miette must render every diagnostic.",
   note="Termination is not decided (a hang would be reported as inconclusive). Stack exhaustion is judged for the harness release profile on an 8 MiB stack. Unbounded parser recursion is a listed known finding per nesting shape.",
   technique="property-based testing / fuzzing: mutation-based generation from a seed corpus + grammar generator, crash/total-function oracle with span and render checks, supervised worker for aborts (proptest); thorough tier adds two coverage-guided libFuzzer campaigns (cargo-fuzz) with the C12/C13/C14 oracles inside the target",
   design="C14"),
 "C15": dict(
   category="exploration",
   text="Exhaustive enumeration of the statement's small name universe (all ordered pairs, all triples for transitivity, every insertion order of every <=4-subset followed by every lookup) plus seeded random names, each compared with a reference semver-track relation and reference map written from the statement. Exhaustive for the enumerated universe; random elsewhere.",
   note="Trusts the `semver` crate for version validity and precedence. Versions that differ only in build metadata are treated as a tie (either answer accepted).",
   technique="property-based testing: exhaustive small-scope enumeration + proptest random generation against a reference model of the semver track relation and of the name map",
   design="C15"),
 "C16": dict(
   category="exploration",
   text="Each case (graph history over a generated library, API history defining base types after their dependants, grammar-generated document, repository fixture with its packages, hand-written documents with several unknown include-with names) is observed twice in one process and on a clone, and in K fresh worker processes (K=4 quick / 12 thorough, each with its own hash seeds); the SHA-256 of encode bytes in both dependency modes, serialised tree, printed text, discovered keys and rendered diagnostics must all be equal.",
   note="A sample of per-process hash seeds, not all. The Debug rendering of the graph is not part of the observation (the statement names binaries, diagnostics and printed text).",
   technique="property-based testing: metamorphic re-execution in fresh worker processes and on clones, hash-equality oracle (proptest generators)",
   design="C16"),
 "C17": dict(
   category="exploration",
   text="Grammar-generated documents whose package references in every syntactic position are listed by the generator's own model: every listed reference except the document's own package must be reported by wac_resolver::packages, the own package never, self-instantiation must be rejected; and resolving with a stub package for every listed reference, with exactly the discovered ones, and with a superset must give the same bytes or the same rendered diagnostic. Plus every repository fixture: all packages found by walking its directory vs exactly the discovered ones.",
   note="Stub packages are WIT packages defining the referenced interface/world names when the reference toolchain accepts them, else a small component; resolution usually stops at its first error, so the differential reaches the first few references of a document.",
   technique="property-based testing: generator-known expected set + metamorphic superset/subset resolution (proptest)",
   design="C17"),
 "C18": dict(
   category="exploration",
   text="Exhaustive decision table over materialised directory trees: what exists at <deps>/ns/name[/version] (nothing / WIT dir / broken WIT dir / plain file), the .wasm candidate (absent / component / garbage), the .wat candidate (absent / text / bad text / binary), the --dep override (none / .wasm / .wat / .wit / dangling / for another package), key shapes with 2-3 name segments and versions with pre-release/build parts, both unknown-package modes, decoy files named with the version's last component replaced by the extension, and builds with and without the `wat` feature (second binary). Expected outcome from the documented layout; expected bytes from the file itself, the `wat` crate or wit-component.",
   note="Exhaustive for the enumerated table (5760 rows quick, 11520 thorough). Reference encodings trusted: wat, wit-parser, wit-component.",
   technique="property-based testing: exhaustive enumeration of a finite configuration table against a reference decision-table model",
   design="C18"),
}

def main():
    checks = []
    for pid in ALL:
        if pid not in CHECKS: continue
        c = CHECKS[pid]
        checks.append({
            "property_id": pid,
            "quick_cmd": f"./run.sh {pid} quick",
            "thorough_cmd": f"./run.sh {pid} thorough" + (" && ./fuzz.sh frontend C14 150000 && ./fuzz.sh decode C14 300000" if pid == "C14" else ""),
            "evidence_file": f"/verif/evidence/{pid}.json",
            "replay_cmd_template": f"./run.sh {pid} quick --replay {{path}}",
            "engine": "c20reg" if pid == "C20" else "vcheck",
            "level_claimed": {"category": c["category"], "text": c["text"], "design_ref": "DESIGN.md §4 " + c["design"]},
            "level_note": c["note"],
            "technique": c["technique"],
        })
    na = [{"property_id": p, "reason": "check not built yet in this round (planned: see DESIGN.md §4); nothing is claimed for it"} for p in ALL if p not in CHECKS]
    m = {
        "version": 1,
        "setup_cmd": "./setup.sh",
        "hooks": {
            "guard": "wac_verif",
            "enable": "RUSTFLAGS=--cfg wac_verif (set through /verif/harness/.cargo/config.toml build.rustflags; the harness path-depends on /repo/crates/*)",
            "baseline_off_cmd": "cd /repo && cargo test --workspace --no-fail-fast --offline",
            "source_commits": HOOK_COMMITS,
            "add_only": True,
        },
        "engines": [{"name": "vcheck", "path": "/verif/harness/vcheck", "serves_properties": [c["property_id"] for c in checks if c["property_id"] != "C20"],
                     "kind_free_text": "Rust driver: seeded proptest generators sharded over 16 threads, manual shrinking, exhaustive small-scope enumerators, reference models/oracles, evidence + replay writer"},
                    {"name": "c20reg", "path": "/verif/harness/c20reg", "serves_properties": ["C20"],
                     "kind_free_text": "same engine library, own driver linking an in-process Warg registry server"},
                    {"name": "fs_nowat", "path": "/verif/harness/fs_nowat", "serves_properties": ["C18"],
                     "kind_free_text": "helper binary: the file-system resolver built without the `wat` feature"},
                    {"name": "fuzz", "path": "/verif/harness/vcheck/fuzz", "serves_properties": ["C14", "C12", "C13", "C08"],
                     "kind_free_text": "cargo-fuzz (libFuzzer, ASan) targets `frontend` and `decode` with the property oracles inside the target; run by fuzz.sh as the second half of C14's thorough command"},
                    {"name": "wac-cli", "path": "/verif/harness/target/wac-cli", "serves_properties": ["C19"],
                     "kind_free_text": "the `wac` binary under test, built by run.sh from /repo's working tree"}],
        "checks": checks,
        "not_applicable": na,
        "notes": "Exit codes of every command: 0 held, 1 VIOLATION line printed, 2 inconclusive/broken check (never a violation). known_findings.json lists recorded genuine defects.",
    }
    json.dump(m, open("/verif/MANIFEST.json", "w"), indent=1)
    print("wrote MANIFEST.json with", len(checks), "checks;", len(na), "not_applicable")

HOOK_COMMITS = ['882af37']
if __name__ == "__main__":
    main()
