#!/bin/bash
# tools/try_seed.sh <seed-dir-name> <CHECK-ID> [tier]   — apply a seeded change to /repo, run one check, undo.
S=/verif/seeded/$1; ID=$2; TIER=${3:-quick}
P=$S/patch.diff; [ -f $S/patch.ported.diff ] && P=$S/patch.ported.diff
git -C /repo apply $P || { echo "PATCH-DOES-NOT-APPLY $1"; exit 3; }
/verif/run.sh $ID $TIER 2>&1 | grep -v "^KNOWN" | cut -c1-220 | tail -4
git -C /repo checkout -- .
rm -rf /verif/replays/$ID
# rebuild against the restored tree so that the binaries never carry a seeded change
(cd /verif/harness && cargo build --release --offline -p vcheck >/dev/null 2>&1; cargo build --release --offline -p fs_nowat >/dev/null 2>&1)
[ "$ID" = "C20" ] && (cd /verif/harness && cargo build --release --offline -p c20reg >/dev/null 2>&1)
[ "$ID" = "C19" ] && (cd /repo && CARGO_TARGET_DIR=/verif/harness/target/wac-cli cargo build --release --offline --bin wac >/dev/null 2>&1)
true
