#!/bin/bash
# ./run.sh <ID> <quick|thorough> [--replay FILE]
# Rebuilds the harness against /repo's current working tree (path dependencies; hooks on via
# --cfg wac_verif in harness/.cargo/config.toml), then runs the check driver.
# Exit: 0 held / 1 VIOLATION / 2 inconclusive or broken check.
set -u
ID="$1"; TIER="${2:-quick}"; shift; shift || true
cd /verif/harness || exit 2
export CARGO_NET_OFFLINE=true
export RUST_BACKTRACE=0 RUST_LIB_BACKTRACE=0
LOG=/verif/harness/target/build-$ID.log
mkdir -p /verif/harness/target
EXTRA=""
[ "$ID" = "C18" ] && EXTRA="-p fs_nowat"
[ "$ID" = "C20" ] && EXTRA="-p c20reg"
if ! { cargo build --release --offline -p vcheck >"$LOG" 2>&1 && { [ -z "$EXTRA" ] || cargo build --release --offline $EXTRA >>"$LOG" 2>&1; }; }; then
  echo "BUILD-FAILED (harness or /repo does not compile); see $LOG"
  tail -30 "$LOG"
  exit 2
fi
if [ "$ID" = "C19" ]; then
  # the CLI under test: built from /repo's working tree with its default features, outside /repo
  if ! ( cd /repo && CARGO_TARGET_DIR=/verif/harness/target/wac-cli cargo build --release --offline --bin wac >>"$LOG" 2>&1 ); then
    echo "BUILD-FAILED (the wac binary does not build); see $LOG"
    tail -30 "$LOG"
    exit 2
  fi
fi
cd /verif
[ "$ID" = "C20" ] && exec /verif/harness/target/release/check20 --tier "$TIER" "$@"
exec /verif/harness/target/release/check "$ID" --tier "$TIER" "$@"
