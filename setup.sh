#!/bin/bash
# Offline build of the whole harness (MANIFEST.setup_cmd).
set -e
cd /verif/harness
export CARGO_NET_OFFLINE=true
cargo build --release --offline -p vcheck
cargo build --release --offline -p fs_nowat
cargo build --release --offline -p c20reg
( cd /repo && CARGO_TARGET_DIR=/verif/harness/target/wac-cli cargo build --release --offline --bin wac )
