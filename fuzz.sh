#!/bin/bash
# ./fuzz.sh <target> <property-id> <runs> — coverage-guided campaign (libFuzzer via cargo-fuzz, offline) with the
# property's oracle inside the target.  Exit 0: no unlisted violation; 1: VIOLATION line with the saved
# input; 2: build failure / inconclusive.  The corpus starts from the repository's fixtures.
set -u
T="$1"; ID="$2"; RUNS="${3:-200000}"
cd /verif/harness/vcheck || exit 2
export CARGO_NET_OFFLINE=true RUST_BACKTRACE=0 RUSTFLAGS="--cfg wac_verif"
[ -f fuzz/Cargo.lock ] || cp /verif/harness/Cargo.lock fuzz/Cargo.lock
LOG=/verif/harness/target/fuzz-$T.log
mkdir -p /verif/harness/target
if ! CARGO_TARGET_DIR=/verif/harness/target/fuzz cargo +nightly fuzz build -O --debug-assertions "$T" >"$LOG" 2>&1; then
  echo "BUILD-FAILED (fuzz target $T); see $LOG"; tail -20 "$LOG"; exit 2
fi
CORPUS=/verif/harness/target/fuzz-corpus-$T
rm -rf "$CORPUS"; mkdir -p "$CORPUS" /verif/replays/$ID
if [ "$T" = "frontend" ]; then
  i=0; for f in $(find /repo/crates -name '*.wac' | sort); do printf "\\x$(printf %02x $((i % 256)))" > "$CORPUS/s$i"; cat "$f" >> "$CORPUS/s$i"; i=$((i+1)); done
else
  i=0; for f in $(find /repo/crates -name '*.wasm' | sort | head -40); do cp "$f" "$CORPUS/s$i"; i=$((i+1)); done
fi
ART=/verif/replays/$ID/fuzz-$T-
OUT=$(CARGO_TARGET_DIR=/verif/harness/target/fuzz cargo +nightly fuzz run -O --debug-assertions "$T" "$CORPUS" -- -runs="$RUNS" -seed="$(( ${VERIF_SEED:-0} + 1 ))" -max_len=4096 -len_control=0 -timeout=20 -rss_limit_mb=4096 -artifact_prefix="$ART" -jobs=8 -workers=8 2>&1)
RC=$?
# with -jobs the workers log to fuzz-<n>.log in the project directory
LOGS=$(cat /verif/harness/vcheck/fuzz-*.log 2>/dev/null | grep -E -A3 "FUZZ-VIOLATION|^Done|SUMMARY" | head -80)
rm -f /verif/harness/vcheck/fuzz-*.log
[ -n "$LOGS" ] && OUT="$LOGS"
echo "$OUT" | grep -E "FUZZ-VIOLATION|Done [0-9]+ runs" | head -12
EXECS=$(echo "$OUT" | grep -oE "Done [0-9]+ runs" | awk '{s+=$2} END {print s+0}')
note() {
  # record the campaign inside the property's evidence file (extra key under coverage)
  python3 - "$ID" "$T" "$RUNS" "$EXECS" "$1" "$(ls "$CORPUS" | wc -l)" <<'PY'
import json,sys
pid,t,runs,execs,result,corpus=sys.argv[1:7]
p=f"/verif/evidence/{pid}.json"
try:
    d=json.load(open(p))
except Exception:
    sys.exit(0)
d.setdefault("coverage",{})[f"fuzz_{t}"]={"engine":"libFuzzer via cargo-fuzz (coverage-guided, ASan, oracles inside the target)","runs_requested_per_job":int(runs),"jobs":8,"executions":int(execs),"seed_corpus_files":int(corpus),"result":result}
json.dump(d,open(p,"w"),indent=1)
PY
}
if echo "$OUT" | grep -q "FUZZ-VIOLATION"; then
  A=$(ls -t ${ART}crash-* 2>/dev/null | head -1)
  P=$(echo "$OUT" | grep -oE "FUZZ-VIOLATION sig=C[0-9][0-9]" | head -1 | grep -oE "C[0-9][0-9]$")
  echo "$OUT" | grep -A3 "FUZZ-VIOLATION" | head -8
  note "violation"
  echo "VIOLATION property=${P:-$ID} replay=${A:-unknown}"
  exit 1
fi
if [ $RC -ne 0 ]; then
  if ls ${ART}timeout-* ${ART}oom-* >/dev/null 2>&1; then note "inconclusive"; echo "INCONCLUSIVE: libFuzzer reported a timeout or out-of-memory input (saved under ${ART}*)"; exit 2; fi
  if ls ${ART}crash-* >/dev/null 2>&1; then note "violation"; echo "VIOLATION property=$ID replay=$(ls -t ${ART}crash-* | head -1)"; exit 1; fi
  note "inconclusive"; echo "INCONCLUSIVE: fuzzer exited with $RC"; echo "$OUT" | tail -5; exit 2
fi
note "no violation"
echo "FUZZ-OK target=$T runs=$RUNS executions=$EXECS"
exit 0
